#!/usr/bin/env python3
"""mir2smt — a small symbolic executor from rustc MIR (text dump) to SMT-LIB2.

Scope: loop-free leaf functions over scalars (f32, integers, bool), newtype /
tuple field projections, calls to other functions of the same dump (inlined
by symbolic execution) and to a handful of `core` float/integer intrinsics
whose semantics are spelled out below.  Anything outside that subset raises
Unsupported — the caller reports the obligation as inconclusive, never as
discharged.

Why it exists: CBMC 6.11's model of the float remainder (`%`) is unusable
(5.5 % 2.0 evaluates to neither 1.5 nor -0.5), so every retrofire function
that goes through `%` (rem_euclid, Angle::wrap, ...) is decided here instead,
with floats in the SMT theory of IEEE-754 (cvc5) and fmod defined exactly from
fp.rem.

The MIR is regenerated from /repo's working tree on every run
(`cargo +nightly rustc -- -Zunpretty=mir -C overflow-checks=on`).
"""
import os
import re
import subprocess
import time


class Unsupported(Exception):
    pass


F32 = "(_ FloatingPoint 8 24)"

INT_TYPES = {"u8": (8, False), "u16": (16, False), "u32": (32, False), "u64": (64, False), "usize": (64, False),
             "i8": (8, True), "i16": (16, True), "i32": (32, True), "i64": (64, True), "isize": (64, True)}


def sort_of(ty):
    ty = ty.strip()
    if ty == "f32":
        return F32
    if ty == "bool":
        return "Bool"
    if ty in INT_TYPES:
        return f"(_ BitVec {INT_TYPES[ty][0]})"
    raise Unsupported(f"type {ty}")


# --------------------------------------------------------------------------
# MIR parsing
# --------------------------------------------------------------------------

class Func:
    def __init__(self, name, params, ret):
        self.name = name
        self.params = params  # [(local, type)]
        self.ret = ret
        self.locals = {}      # local -> type
        self.blocks = {}      # bb -> (stmts, terminator)


FN_RE = re.compile(r"^fn (.+?)\((.*)\) -> (.+?) \{$")
FN_RE_UNIT = re.compile(r"^fn (.+?)\((.*)\) \{$")


def split_top(s, sep=","):
    out, depth, cur = [], 0, ""
    in_str = False
    prev = ""
    for ch in s:
        if ch == '"' and prev != "\\":
            in_str = not in_str
        prev = ch
        if in_str:
            cur += ch
            continue
        if ch in "([{<":
            depth += 1
        elif ch in ")]}>":
            depth -= 1
        if ch == sep and depth == 0:
            out.append(cur.strip())
            cur = ""
        else:
            cur += ch
    if cur.strip():
        out.append(cur.strip())
    return out


def parse_mir(text):
    funcs = {}
    lines = text.split("\n")
    i = 0
    while i < len(lines):
        line = lines[i]
        m = FN_RE.match(line) or FN_RE_UNIT.match(line)
        if not m or line.startswith("fn ") is False:
            i += 1
            continue
        name = m.group(1)
        params = []
        for p in split_top(m.group(2)):
            if not p:
                continue
            lm = re.match(r"(_\d+): (.+)", p)
            if lm:
                params.append((lm.group(1), lm.group(2)))
        ret = m.group(3) if m.re is FN_RE else "()"
        f = Func(name, params, ret)
        for l, t in params:
            f.locals[l] = t
        i += 1
        cur = None
        while i < len(lines) and lines[i] != "}":
            s = lines[i].strip()
            lm = re.match(r"let (?:mut )?(_\d+): (.+);$", s)
            if lm:
                f.locals[lm.group(1)] = lm.group(2)
            bm = re.match(r"(bb\d+)(?: \(cleanup\))?: \{$", s)
            if bm:
                cur = bm.group(1)
                f.blocks[cur] = []
            elif s == "}" and cur:
                cur = None
            elif cur and s and not s.startswith("//"):
                f.blocks[cur].append(s)
            i += 1
        funcs.setdefault(name, f)
        i += 1
    return funcs


# --------------------------------------------------------------------------
# SMT helpers
# --------------------------------------------------------------------------

def fp_const(v):
    """MIR float literal (e.g. 0.5f32, 8388608f32, -1f32, 1.0E+3f32) -> SMT term, exactly"""
    import struct
    x = float(v)
    b = struct.unpack("<I", struct.pack("<f", x))[0]
    return f"(fp #b{b >> 31:01b} #b{(b >> 23) & 0xff:08b} #b{b & 0x7fffff:023b})"


def bv_const(v, bits):
    return f"(_ bv{int(v) % (1 << bits)} {bits})"


PRELUDE = f"""
(define-fun fmod32 ((a {F32}) (b {F32})) {F32}
  ; C fmod / Rust `%` on f32: exact, sign of the dividend.  Built from the IEEE
  ; remainder (round-to-nearest quotient): r in [-|b|/2, |b|/2]; a negative r
  ; plus |b| is the truncated remainder and is exactly representable.
  (let ((r (fp.rem (fp.abs a) (fp.abs b))))
  (let ((ra (ite (and (fp.isNegative r) (not (fp.isZero r))) (fp.add RNE r (fp.abs b)) (fp.abs r))))
   (ite (fp.isNegative a) (fp.neg ra) ra))))
"""


class Val:
    """symbolic value: SMT term + rust type; aggregates carry fields; small
    integers that are known constants keep their Python value in .k (so that
    loop counters / discriminants fold and bounded loops terminate)"""
    def __init__(self, term, ty, fields=None, k=None, kind=None, ref_to=None, pos=0):
        self.term = term
        self.ty = ty
        self.fields = fields
        self.k = k
        self.kind = kind      # None | 'iter' | 'option' | 'opaque' | 'unit'
        self.ref_to = ref_to  # name of the local a &mut points to
        self.pos = pos        # iterator position


UNIT = None


# --------------------------------------------------------------------------
# symbolic execution
# --------------------------------------------------------------------------

class Exec:
    def __init__(self, funcs, extern=None):
        self.funcs = funcs
        self.panics = []     # list of (path condition term, message)
        self.extern = extern or {}
        self.encoded = set()
        self.side = []       # side constraints (to_bits)
        self.decls = []
        self.cur_env = None

    # ---- operands ----
    def operand(self, env, f, s):
        s = s.strip()
        m = re.match(r"(?:no_retag )?(?:copy|move) (.+)$", s)
        if m:
            return self.place(env, f, m.group(1))
        m = re.match(r"const (.+)$", s)
        if m:
            return self.const(m.group(1))
        raise Unsupported(f"operand {s}")

    def const(self, c):
        c = c.strip()
        m = re.match(r"(-?[\d.]+(?:[eE][+-]?\d+)?)f32$", c)
        if m:
            return Val(fp_const(m.group(1)), "f32")
        m = re.match(r"(-?\d+)_(u8|u16|u32|u64|usize|i8|i16|i32|i64|isize)$", c)
        if m:
            return Val(bv_const(m.group(1), INT_TYPES[m.group(2)][0]), m.group(2), k=int(m.group(1)))
        if c in ("true", "false"):
            return Val(c, "bool", k=(c == "true"))
        if c in ("f32::INFINITY", "core::f32::INFINITY"):
            return Val("(_ +oo 8 24)", "f32")
        if c.startswith("ZeroSized") or "PhantomData" in c or c == "()":
            return Val(None, "()", fields=[], kind="unit")
        if c.startswith('b"') or c.startswith('"'):
            return Val(None, "str", fields=[], kind="opaque")
        raise Unsupported(f"const {c}")

    def place(self, env, f, p):
        """places: _N | (P.i: T) | P[k of n] | (*P) | *P | (P as Variant)"""
        p = p.strip()
        m = re.match(r"(.+)\[(\d+) of \d+\]$", p)
        if m:
            base = self.place(env, f, m.group(1))
            if base.fields is None:
                raise Unsupported(f"index into scalar {p}")
            return base.fields[int(m.group(2))]
        if p.startswith("(") and p.endswith(")"):
            inner = p[1:-1].strip()
            m = re.match(r"(.+)\.(\d+): (.+)$", inner)
            if m and self._balanced(m.group(1)):
                base = self.place(env, f, m.group(1))
                i = int(m.group(2))
                if base.fields is None:
                    if i == 0:   # transparent newtype over a scalar
                        return Val(base.term, m.group(3), k=base.k)
                    raise Unsupported(f"field {i} of scalar in {p}")
                if i >= len(base.fields):
                    raise Unsupported(f"field {i} out of range in {p}")
                return base.fields[i]
            m = re.match(r"(.+) as (\w+)$", inner)
            if m:
                return self.place(env, f, m.group(1))
            return self.place(env, f, inner)
        if p.startswith("*"):
            v = self.place(env, f, p[1:])
            if v.ref_to is not None:
                t = env.get(v.ref_to)
                if t is None:
                    raise Unsupported(f"dangling reference in {p}")
                return t
            return v
        if re.match(r"_\d+$", p):
            v = env.get(p)
            if v is None:
                raise Unsupported(f"uninitialised {p}")
            return v
        raise Unsupported(f"place {p}")

    @staticmethod
    def _balanced(t):
        d = 0
        for ch in t:
            if ch in "([":
                d += 1
            elif ch in ")]":
                d -= 1
            if d < 0:
                return False
        return d == 0

    # ---- rvalues ----
    def rvalue(self, env, f, dst_ty, r, pc):
        r = r.strip()
        m = re.match(r"&(mut )?(.+)$", r)
        if m:
            tgt = m.group(2).strip()
            if m.group(1) and re.match(r"_\d+$", tgt):
                return Val(None, dst_ty, ref_to=tgt)
            return self.place(env, f, tgt)   # shared borrow: snapshot of the value
        m = re.match(r"discriminant\((.+)\)$", r)
        if m:
            v = self.place(env, f, m.group(1))
            if v.kind != "option":
                raise Unsupported("discriminant of non-option")
            return Val(bv_const(v.k, 64), "isize", k=v.k)
        m = re.match(r"\[(.*)\]$", r)
        if m:
            return Val(None, dst_ty, fields=[self.operand(env, f, a) for a in split_top(m.group(1))])
        m = re.match(r"(\w+)\((.*)\)$", r)
        if m and m.group(1) in BINOPS | {"Not", "Neg"} | OVERFLOW_OPS:
            op = m.group(1)
            args = [self.operand(env, f, a) for a in split_top(m.group(2))]
            return self.apply_op(op, args, dst_ty)
        m = re.match(r"(.+) as (\w+) \((\w+)\)$", r)
        if m:
            return self.cast(self.operand(env, f, m.group(1)), m.group(2), m.group(3))
        if re.match(r"(no_retag )?(copy|move|const) ", r):
            return self.operand(env, f, r)
        # closure / struct with named fields:  {closure@...} { m: copy _30 }   Foo { a: move _1 }
        m = re.match(r"(.+?) \{ (.*) \}$", r)
        if m:
            flds = []
            for part in split_top(m.group(2)):
                flds.append(self.operand(env, f, part.split(":", 1)[1]))
            return Val(None, dst_ty, fields=flds)
        # newtype / tuple-struct constructor:  Angle(move _4)   Color::<R, Sp>(copy _1, const ZeroSized: ..)
        m = re.match(r"([A-Za-z_][\w:<>, \[\];]*)\((.*)\)$", r)
        if m:
            args = [self.operand(env, f, a) for a in split_top(m.group(2))]
            real = [a for a in args if a.kind != "unit"]
            if len(args) == 1 and args[0].fields is None:
                return Val(args[0].term, dst_ty, k=args[0].k)
            return Val(None, dst_ty, fields=args)
        m = re.match(r"\((.*)\)$", r)
        if m:
            args = [self.operand(env, f, a) for a in split_top(m.group(1))]
            return Val(None, dst_ty, fields=args)
        raise Unsupported(f"rvalue {r}")

    def apply_op(self, op, a, dst_ty):
        x = a[0]
        ty = x.ty
        if op == "Not":
            if ty == "bool":
                return Val(f"(not {x.term})", "bool")
            return Val(f"(bvnot {x.term})", ty)
        if op == "Neg":
            if ty == "f32":
                return Val(f"(fp.neg {x.term})", "f32")
            return Val(f"(bvneg {x.term})", ty)
        y = a[1]
        if ty == "f32":
            t = {"Add": "(fp.add RNE {0} {1})", "Sub": "(fp.sub RNE {0} {1})", "Mul": "(fp.mul RNE {0} {1})",
                 "Div": "(fp.div RNE {0} {1})", "Rem": "(fmod32 {0} {1})",
                 "Lt": "(fp.lt {0} {1})", "Le": "(fp.leq {0} {1})", "Gt": "(fp.gt {0} {1})", "Ge": "(fp.geq {0} {1})",
                 "Eq": "(fp.eq {0} {1})", "Ne": "(not (fp.eq {0} {1}))"}.get(op)
            if t is None:
                raise Unsupported(f"float op {op}")
            return Val(t.format(x.term, y.term), "bool" if op in CMP else "f32")
        if ty == "bool":
            t = {"BitAnd": "(and {0} {1})", "BitOr": "(or {0} {1})", "BitXor": "(xor {0} {1})", "Eq": "(= {0} {1})", "Ne": "(distinct {0} {1})"}.get(op)
            if t is None:
                raise Unsupported(f"bool op {op}")
            return Val(t.format(x.term, y.term), "bool")
        if ty in INT_TYPES:
            bits, signed = INT_TYPES[ty]
            if op in OVERFLOW_OPS:
                base = op[:-len("WithOverflow")]
                res = {"Add": "bvadd", "Sub": "bvsub", "Mul": "bvmul"}[base]
                ext = "sign_extend" if signed else "zero_extend"
                wide = f"({res} ((_ {ext} {bits}) {x.term}) ((_ {ext} {bits}) {y.term}))"
                narrow = f"({res} {x.term} {y.term})"
                ovf = f"(distinct {wide} ((_ {ext} {bits}) {narrow}))"
                return Val(None, dst_ty, fields=[Val(narrow, ty), Val(ovf, "bool")])
            if op in ("Shl", "Shr"):
                ybits = INT_TYPES[y.ty][0]
                yt = y.term
                if ybits < bits:
                    yt = f"((_ zero_extend {bits - ybits}) {yt})"
                elif ybits > bits:
                    yt = f"((_ extract {bits - 1} 0) {yt})"
                o = "bvshl" if op == "Shl" else ("bvashr" if signed else "bvlshr")
                return Val(f"({o} {x.term} {yt})", ty)
            t = {"Add": "bvadd", "Sub": "bvsub", "Mul": "bvmul", "BitAnd": "bvand", "BitOr": "bvor", "BitXor": "bvxor",
                 "Div": "bvsdiv" if signed else "bvudiv", "Rem": "bvsrem" if signed else "bvurem"}.get(op)
            if t:
                return Val(f"({t} {x.term} {y.term})", ty)
            c = {"Lt": ("bvslt", "bvult"), "Le": ("bvsle", "bvule"), "Gt": ("bvsgt", "bvugt"), "Ge": ("bvsge", "bvuge")}.get(op)
            if c:
                return Val(f"({c[0] if signed else c[1]} {x.term} {y.term})", "bool")
            if op == "Eq":
                return Val(f"(= {x.term} {y.term})", "bool")
            if op == "Ne":
                return Val(f"(distinct {x.term} {y.term})", "bool")
        raise Unsupported(f"op {op} on {ty}")

    def cast(self, v, to, kind):
        if kind == "IntToInt":
            if v.ty == "bool":
                bits = INT_TYPES[to][0]
                return Val(f"(ite {v.term} {bv_const(1, bits)} {bv_const(0, bits)})", to)
            fb, fs = INT_TYPES[v.ty]
            tb, _ = INT_TYPES[to]
            if tb == fb:
                return Val(v.term, to)
            if tb < fb:
                return Val(f"((_ extract {tb - 1} 0) {v.term})", to)
            ext = "sign_extend" if fs else "zero_extend"
            return Val(f"((_ {ext} {tb - fb}) {v.term})", to)
        if kind == "IntToFloat" and to == "f32":
            _, signed = INT_TYPES[v.ty]
            return Val(f"((_ to_fp 8 24) RNE {v.term})" if signed else f"((_ to_fp_unsigned 8 24) RNE {v.term})", "f32")
        if kind == "FloatToInt" and v.ty == "f32":
            bits, signed = INT_TYPES[to]
            # Rust `as`: NaN -> 0, saturating, truncating
            if signed:
                lo, hi = -(1 << (bits - 1)), (1 << (bits - 1)) - 1
                conv = f"((_ fp.to_sbv {bits}) RTZ {v.term})"
            else:
                lo, hi = 0, (1 << bits) - 1
                conv = f"((_ fp.to_ubv {bits}) RTZ {v.term})"
            flo = f"((_ to_fp 8 24) RTZ (- {float(-lo)}))" if lo != 0 else "((_ to_fp 8 24) RTZ 0.0)"
            # 2^(bits-1) resp. 2^bits are exactly representable
            top = float(1 << (bits - 1)) if signed else float(1 << bits)
            ftop = f"((_ to_fp 8 24) RTZ {top})"
            t = (f"(ite (fp.isNaN {v.term}) {bv_const(0, bits)} "
                 f"(ite (fp.geq {v.term} {ftop}) {bv_const(hi, bits)} "
                 f"(ite (fp.leq {v.term} {flo}) {bv_const(lo, bits)} {conv})))")
            return Val(t, to)
        raise Unsupported(f"cast {v.ty} as {to} ({kind})")

    def to_bits(self, v):
        """bit pattern of a float: a fresh bit-vector tied to v by a side constraint
        (NaN has many patterns; the canonical quiet NaN is chosen)"""
        n = len(self.side)
        b = f"tb{n}"
        self.decls.append(f"(declare-const {b} (_ BitVec 32))")
        self.side.append(f"(ite (fp.isNaN {v.term}) (= {b} #x7fc00000) (= ((_ to_fp 8 24) {b}) {v.term}))")
        return [("true", Val(b, "u32"))]

    # ---- calls ----
    def call(self, name, args, pc, depth):
        name = name.strip()
        # ---- modelled pieces of core ----
        if re.match(r"<\[.*\] as IntoIterator>::into_iter$", name):
            return [("true", Val(None, "IntoIter", fields=list(args[0].fields), kind="iter", pos=0))]
        if re.match(r"<core::array::IntoIter<.*> as Iterator>::next$", name):
            tgt = args[0].ref_to
            it = self.cur_env.get(tgt)
            if it is None or it.kind != "iter":
                raise Unsupported("next() on something that is not a modelled array iterator")
            if it.pos < len(it.fields):
                item = it.fields[it.pos]
                self.cur_env[tgt] = Val(None, it.ty, fields=it.fields, kind="iter", pos=it.pos + 1)
                return [("true", Val(None, "Option", fields=[item], kind="option", k=1))]
            return [("true", Val(None, "Option", fields=[], kind="option", k=0))]
        m = re.match(r"array::<impl \[.*\]>::map::<(\{closure@.*?\}), .*>$", name)
        if m:
            cl = [fn for fn in self.funcs.values() if fn.params and m.group(1) in fn.params[0][1]]
            if len(cl) != 1:
                raise Unsupported(f"closure for {name}")
            out = []
            for el in args[0].fields:
                r = self.run(cl[0], [args[1], el], pc, depth + 1)
                out.append(self.merge(r, None))
            return [("true", Val(None, "array", fields=out))]
        if re.search(r" as Into<.*>>::into$", name) or re.search(r" as From<.*>>::from$", name):
            # the crate's only From/Into impls for its newtypes wrap the representation
            return [("true", Val(None, "newtype", fields=[args[0], Val(None, "()", fields=[], kind="unit")]))]
        if name.startswith(("core::fmt::", "Arguments::")) or "fmt::rt::Argument" in name:
            return [("true", Val(None, "fmt", fields=[], kind="opaque"))]
        intr = INTRINSICS.get(re.sub(r"^core::|^std::", "", name))
        if intr:
            return intr(self, args)
        for pat, handler in self.extern.items():
            if re.search(pat, name):
                return [("true", handler(self, args))]
        short = re.sub(r"::<[^()]*>$", "", name)   # drop a trailing turbofish
        if short in self.funcs:
            return self.run(self.funcs[short], args, pc, depth + 1)
        # the dump prints crate-local paths without the crate name
        for k in self.funcs:
            if k.endswith(short) or short.endswith(k):
                return self.run(self.funcs[k], args, pc, depth + 1)
        raise Unsupported(f"call to {name}")

    def run(self, f, args, pc="true", depth=0):
        """returns a list of (path condition, return Val)"""
        if depth > 8:
            raise Unsupported("call depth")
        self.encoded.add(f.name)
        env = {}
        for (l, t), a in zip(f.params, args):
            env[l] = Val(a.term, t, a.fields)
        return self.exec_block(f, "bb0", env, pc, depth, 0)

    def merge(self, outcomes, ty):
        """ite-merge of (pc, Val) outcomes into one Val (fieldwise for aggregates)"""
        if not outcomes:
            raise Unsupported("no return path")
        first = outcomes[0][1]
        if len(outcomes) == 1:
            return first
        if first.fields is not None:
            n = len(first.fields)
            if any(o[1].fields is None or len(o[1].fields) != n for o in outcomes):
                raise Unsupported("merging differently shaped aggregates")
            return Val(None, first.ty, fields=[self.merge([(pc, v.fields[i]) for pc, v in outcomes], None) for i in range(n)], kind=first.kind)
        if first.kind in ("unit", "opaque") or first.term is None:
            return first
        t = outcomes[-1][1].term
        for pc, v in reversed(outcomes[:-1]):
            t = f"(ite {pc} {v.term} {t})"
        return Val(t, first.ty)

    def exec_block(self, f, bb, env, pc, depth, steps):
        if steps > 200:
            raise Unsupported("block budget (loop?)")
        stmts = f.blocks.get(bb)
        if stmts is None:
            raise Unsupported(f"missing block {bb}")
        env = dict(env)
        for s in stmts:
            if s.startswith(("StorageLive", "StorageDead", "nop", "FakeRead", "PlaceMention", "Retag", "AscribeUserType", "Coverage", "ConstEvalCounter")):
                continue
            s = s.rstrip(";") if not s.endswith("];") and "->" not in s else s
            # terminators
            if s in ("return", "return;"):
                return [(pc, env.get("_0", Val(None, "()", fields=[])))]
            m = re.match(r"goto -> (bb\d+);?$", s)
            if m:
                return self.exec_block(f, m.group(1), env, pc, depth, steps + 1)
            m = re.match(r"switchInt\((.+?)\) -> \[(.+)\];?$", s)
            if m:
                v = self.operand(env, f, m.group(1))
                outs = []
                taken = []
                if v.k is not None:
                    # concrete discriminant / counter: follow the one matching arm
                    kv = int(v.k)
                    tgt = None
                    for arm in split_top(m.group(2)):
                        k, t = [x.strip() for x in arm.split(":")]
                        if k == "otherwise":
                            if tgt is None:
                                tgt = t
                        elif int(k) == kv:
                            tgt = t
                            break
                    return self.exec_block(f, tgt, env, pc, depth, steps + 1)
                for arm in split_top(m.group(2)):
                    k, tgt = [x.strip() for x in arm.split(":")]
                    if k == "otherwise":
                        cond = "(and " + " ".join(f"(not {c})" for c in taken) + ")" if taken else "true"
                    else:
                        if v.ty == "bool":
                            cond = f"(not {v.term})" if k == "0" else v.term
                        else:
                            cond = f"(= {v.term} {bv_const(k, INT_TYPES[v.ty][0])})"
                        taken.append(cond)
                    outs += self.exec_block(f, tgt, env, f"(and {pc} {cond})", depth, steps + 1)
                return outs
            m = re.match(r"assert\((!?)(.+?), \"(.*?)\".*\) -> \[success: (bb\d+), unwind.*\];?$", s)
            if m:
                c = self.operand(env, f, m.group(2))
                ok = f"(not {c.term})" if m.group(1) == "!" else c.term
                self.panics.append((f"(and {pc} (not {ok}))", f"{f.name}: {m.group(3)[:60]}"))
                return self.exec_block(f, m.group(4), env, f"(and {pc} {ok})", depth, steps + 1)
            m = re.match(r"drop\(.+?\) -> \[return: (bb\d+), unwind.*\];?$", s)
            if m:
                return self.exec_block(f, m.group(1), env, pc, depth, steps + 1)
            m = re.match(r"(.+?) = (.*panic.*?)\((.*)\) -> (?:unwind.*|bb\d+);?$", s)
            if m:
                self.panics.append((pc, f"{f.name}: {m.group(2).strip()}"))
                return []
            m = re.match(r"(.+?) = (.+?)\((.*)\) -> \[return: (bb\d+), unwind.*\];?$", s)
            if m:
                dst, callee, argstr, nxt = m.groups()
                args = [self.operand(env, f, a) for a in split_top(argstr)]
                self.cur_env = env
                outs = self.call(callee, args, pc, depth)
                dty = f.locals.get(dst.strip(), outs[0][1].ty)
                if not outs:
                    return []      # callee always panics
                rv = outs[0][1] if len(outs) == 1 else self.merge(outs, dty)
                env[dst.strip()] = Val(rv.term, dty if rv.fields is None else rv.ty, rv.fields, k=rv.k, kind=rv.kind, ref_to=rv.ref_to, pos=rv.pos)
                return self.exec_block(f, nxt, env, pc, depth, steps + 1)
            if s.startswith("unreachable"):
                self.panics.append((pc, f"{f.name}: unreachable reached"))
                return []
            m = re.match(r"(.+?) = (.+)$", s)
            if m:
                dst, rhs = m.group(1).strip(), m.group(2).strip().rstrip(";")
                pm = re.match(r"\((_\d+)\.(\d+): (.+)\)$", dst)
                if pm:
                    raise Unsupported(f"field assignment {dst}")
                dty = f.locals.get(dst, "?")
                v = self.rvalue(env, f, dty, rhs, pc)
                env[dst] = Val(v.term, dty if v.fields is None and dty != "?" else v.ty, v.fields, k=v.k, kind=v.kind, ref_to=v.ref_to, pos=v.pos)
                continue
            raise Unsupported(f"statement {s}")
        raise Unsupported(f"block {bb} without terminator")


CMP = {"Lt", "Le", "Gt", "Ge", "Eq", "Ne"}
BINOPS = {"Add", "Sub", "Mul", "Div", "Rem", "BitAnd", "BitOr", "BitXor", "Shl", "Shr"} | CMP
OVERFLOW_OPS = {"AddWithOverflow", "SubWithOverflow", "MulWithOverflow"}


INTRINSICS = {
    "f32::<impl f32>::is_sign_negative": lambda ex, a: [("true", Val(f"(fp.isNegative {a[0].term})", "bool"))],
    "f32::<impl f32>::is_sign_positive": lambda ex, a: [("true", Val(f"(fp.isPositive {a[0].term})", "bool"))],
    "f32::<impl f32>::abs": lambda ex, a: [("true", Val(f"(fp.abs {a[0].term})", "f32"))],
    "f32::<impl f32>::is_nan": lambda ex, a: [("true", Val(f"(fp.isNaN {a[0].term})", "bool"))],
    # core::f32::rem_euclid as documented/implemented in core:  r = a % b; if r < 0 { r + |b| } else { r }
    "f32::<impl f32>::rem_euclid": lambda ex, a: [("true", Val(
        f"(let ((r (fmod32 {a[0].term} {a[1].term}))) (ite (fp.lt r ((_ to_fp 8 24) RNE 0.0)) (fp.add RNE r (fp.abs {a[1].term})) r))", "f32"))],
    "f32::<impl f32>::floor": lambda ex, a: [("true", Val(f"(fp.roundToIntegral RTN {a[0].term})", "f32"))],
    "f32::<impl f32>::max": lambda ex, a: [("true", Val(
        f"(ite (fp.isNaN {a[0].term}) {a[1].term} (ite (fp.isNaN {a[1].term}) {a[0].term} (ite (fp.gt {a[0].term} {a[1].term}) {a[0].term} {a[1].term})))", "f32"))],
    "f32::<impl f32>::min": lambda ex, a: [("true", Val(
        f"(ite (fp.isNaN {a[0].term}) {a[1].term} (ite (fp.isNaN {a[1].term}) {a[0].term} (ite (fp.lt {a[0].term} {a[1].term}) {a[0].term} {a[1].term})))", "f32"))],
    "f32::<impl f32>::from_bits": lambda ex, a: [("true", Val(f"((_ to_fp 8 24) {a[0].term})", "f32"))],
    "f32::<impl f32>::to_bits": lambda ex, a: ex.to_bits(a[0]),
}


# --------------------------------------------------------------------------
# producing MIR
# --------------------------------------------------------------------------

def dump_mir(repo, features, scratch, tag, debug_assertions=False):
    """MIR text of retrofire-core built from `repo` with the given feature list"""
    td = os.path.join(scratch, f"mir_target_{tag}{'_dbg' if debug_assertions else ''}")
    cmd = ["cargo", "+nightly", "rustc", "--offline", "--lib", "--no-default-features", "--target-dir", td,
           "--manifest-path", os.path.join(repo, "core", "Cargo.toml")]
    if features:
        cmd += ["--features", ",".join(features)]
    cmd += ["--", "-Zunpretty=mir", "-C", "debug-assertions=" + ("on" if debug_assertions else "off"), "-C", "overflow-checks=on"]
    env = dict(os.environ, CARGO_NET_OFFLINE="true")
    env.pop("RUSTFLAGS", None)
    p = subprocess.run(cmd, capture_output=True, text=True, env=env)
    if p.returncode != 0 or "fn " not in p.stdout:
        raise Unsupported("MIR dump failed: " + p.stderr[-500:])
    return p.stdout


def find_func(funcs, pattern):
    hits = [k for k in funcs if re.search(pattern, k)]
    if len(hits) != 1:
        raise Unsupported(f"function pattern {pattern!r} matches {len(hits)} MIR functions")
    return funcs[hits[0]]


def run_cvc5(script, cap):
    t0 = time.time()
    try:
        p = subprocess.run(["cvc5", "--lang", "smt2", "--produce-models", "--fp-exp"], input=script, capture_output=True, text=True, timeout=cap)
    except subprocess.TimeoutExpired:
        return "timeout", "", time.time() - t0
    out = p.stdout.strip()
    # (get-model) after an unsat answer is an expected, harmless error
    out_chk = out.replace('(error "Cannot get model unless after a SAT or UNKNOWN response.")', "")
    if "(error" in out_chk or (p.returncode != 0 and not out.startswith(("sat", "unsat"))):
        return "error", out + p.stderr, time.time() - t0
    first = out.split("\n")[0].strip() if out else "error"
    return first, out, time.time() - t0
