#!/usr/bin/env python3
"""C19 X2 — full period of the xorshift step, as a solver-checked witness chain.

The real step function (built from /repo, run natively on the 64 basis states)
gives the columns of a GF(2) matrix M; Kani proves on the real code that the
step is linear (c19_step_linear), so step(s) == M*s for every state.  This
script only *proposes* matrices (plain GF(2) products); every link of the chain
is an SMT query over a free 64-bit vector x:

   squaring links   forall x: S[i+1]*x == S[i]*(S[i]*x)          S[i] = M^(2^i)
   product links    forall x: P'*x == P*(S[i]*x)                 running products
   identity         forall x: M^(2^64-1)*x == x
   per prime p | 2^64-1:  N_p = M^((2^64-1)/p) + I is invertible: the script proposes
                    Q_p (Gaussian elimination) and the solver checks  forall x: Q_p*(N_p*x) == x,
                    so N_p*x == 0 only for x == 0, i.e. M^((2^64-1)/p)*x != x for every x != 0.

=> every non-zero state has period exactly 2^64-1, hence all 2^64-1 of them
lie on one cycle, and the step is a bijection that never reaches zero.

Encoding.  A direct "forall x over 64 free bits" equivalence of two XOR
networks does not come back from z3 4.8.12, z3 5.1 or cvc5 1.0 (each > 60 s
per link: parity reasoning is the classical worst case for CDCL).  Both sides
of every identity are GF(2)-linear in x *by construction of the term* (an XOR
of constants selected by single bits of x), so each identity is posed on the
eight byte-subspaces x = b << 8k (b a free 8-bit vector) whose union spans
GF(2)^64; the solver decides all 256 values of each subspace and linearity
extends the identity to every x.  Queries go to one `z3 -in` process
(push/pop); cvc5 re-checks the same script.
"""
import os
import subprocess
import sys
import time

E = (1 << 64) - 1
PRIMES = [3, 5, 17, 257, 641, 65537, 6700417]


def mat_apply(cols, x):
    r = 0
    i = 0
    while x:
        if x & 1:
            r ^= cols[i]
        x >>= 1
        i += 1
    return r


def mat_mul(a, b):
    """(a*b) columns: (a*b) e_i = a*(b e_i)"""
    return [mat_apply(a, c) for c in b]


def smt_apply(name_cols, x):
    """SMT-LIB term for matrix(cols)*x"""
    terms = [f"(ite (= ((_ extract {i} {i}) {x}) #b1) #x{c:016x} #x{0:016x})" for i, c in enumerate(name_cols) if c]
    if not terms:
        return "#x0000000000000000"
    t = terms[0]
    for u in terms[1:]:
        t = f"(bvxor {t} {u})"
    return t


def smt_apply_balanced(cols, x):
    terms = [f"(ite (= ((_ extract {i} {i}) {x}) #b1) #x{c:016x} #x{0:016x})" for i, c in enumerate(cols) if c]
    if not terms:
        return "#x0000000000000000"
    while len(terms) > 1:
        nxt = []
        for k in range(0, len(terms) - 1, 2):
            nxt.append(f"(bvxor {terms[k]} {terms[k+1]})")
        if len(terms) % 2:
            nxt.append(terms[-1])
        terms = nxt
    return terms[0]


class Script:
    def __init__(self):
        self.lines = ["(set-logic QF_BV)", "(declare-const b (_ BitVec 8))"]
        self.expect = []
        self.names = []

    def query(self, name, assertion, expect):
        self.lines += ["(push 1)", f"(assert {assertion})", "(check-sat)", "(pop 1)"]
        self.expect.append(expect)
        self.names.append(name)


def chunk(k):
    """term for x = b << 8k"""
    parts = []
    if k < 7:
        parts.append(f"#x{0:0{2*(7-k)}x}")
    parts.append("b")
    if k > 0:
        parts.append(f"#x{0:0{2*k}x}")
    return "(concat " + " ".join(parts) + ")" if len(parts) > 1 else "b"


def smt_apply_chunk(cols, k):
    """matrix * (b << 8k): only columns 8k..8k+7 matter"""
    terms = [f"(ite (= ((_ extract {i} {i}) b) #b1) #x{cols[8*k+i]:016x} #x{0:016x})" for i in range(8)]
    t = terms[0]
    for u in terms[1:]:
        t = f"(bvxor {t} {u})"
    return t


def gf2_inverse(cols):
    """inverse of the matrix with the given columns, or None"""
    n = 64
    rows = []
    for r in range(n):
        a = 0
        for c in range(n):
            if (cols[c] >> r) & 1:
                a |= 1 << c
        rows.append((a, 1 << r))
    for c in range(n):
        piv = None
        for r in range(c, n):
            if (rows[r][0] >> c) & 1:
                piv = r
                break
        if piv is None:
            return None
        rows[c], rows[piv] = rows[piv], rows[c]
        for r in range(n):
            if r != c and (rows[r][0] >> c) & 1:
                rows[r] = (rows[r][0] ^ rows[c][0], rows[r][1] ^ rows[c][1])
    inv_cols = []
    for c in range(n):
        v = 0
        for r in range(n):
            if (rows[r][1] >> c) & 1:
                v |= 1 << r
        inv_cols.append(v)
    return inv_cols


def build(M):
    sc = Script()

    def link(name, C, A, B):
        # forall x: C x == A (B x), posed on the 8 byte-subspaces
        for k in range(8):
            bx = smt_apply_chunk(B, k)
            a_bx = smt_apply_balanced(A, "y")
            cx = smt_apply_chunk(C, k)
            sc.query(f"{name} [byte {k}]", f"(let ((y {bx})) (distinct {cx} {a_bx}))", "unsat")
    S = [M]
    for i in range(63):
        nxt = mat_mul(S[i], S[i])
        link(f"square M^(2^{i}) -> M^(2^{i+1})", nxt, S[i], S[i])
        S.append(nxt)

    def power(e, tag):
        P = None
        for i in range(64):
            if (e >> i) & 1:
                if P is None:
                    P = S[i]
                else:
                    nxt = mat_mul(P, S[i])
                    link(f"{tag}: times M^(2^{i})", nxt, P, S[i])
                    P = nxt
        return P
    Pe = power(E, "M^(2^64-1)")
    for k in range(8):
        sc.query(f"FINAL M^(2^64-1) x == x [byte {k}]", f"(distinct {smt_apply_chunk(Pe, k)} {chunk(k)})", "unsat")
    for p in PRIMES:
        Pp = power(E // p, f"M^((2^64-1)/{p})")
        Np = [Pp[i] ^ (1 << i) for i in range(64)]
        Q = gf2_inverse(Np)
        if Q is None:
            # singular: some x != 0 is fixed by M^((2^64-1)/p); let the solver exhibit it
            sc.query(f"FINAL p={p}: M^((2^64-1)/{p}) + I is singular (period divides (2^64-1)/{p} for some state)", "true", "unsat")
            continue
        for k in range(8):
            y = smt_apply_chunk(Np, k)
            sc.query(f"FINAL p={p}: Q*(M^((2^64-1)/{p}) + I)*x == x [byte {k}]",
                     f"(let ((y {y})) (distinct {smt_apply_balanced(Q, 'y')} {chunk(k)}))", "unsat")
    # vacuity witness (expected sat): M is not the identity
    sc.query("witness: M x != x for some x", f"(distinct {smt_apply_chunk(M, 0)} {chunk(0)})", "sat")
    return sc


def run_solver(cmd, text, cap):
    t0 = time.time()
    try:
        p = subprocess.run(cmd, input=text, capture_output=True, text=True, timeout=cap)
    except subprocess.TimeoutExpired:
        return None, time.time() - t0, "timeout"
    out = p.stdout.strip().split("\n")
    return out, time.time() - t0, p.stderr


def run_parallel(cmd, sc, cap, nproc=12):
    """splits the queries over nproc solver processes; returns answers in order"""
    from concurrent.futures import ThreadPoolExecutor
    head = sc.lines[:2]
    body = sc.lines[2:]
    qs = [body[i:i + 4] for i in range(0, len(body), 4)]
    n = len(qs)
    parts = [list(range(k, n, nproc)) for k in range(nproc)]
    t0 = time.time()

    def work(idx):
        text = "\n".join(head + [l for i in idx for l in qs[i]]) + "\n"
        return run_solver(cmd, text, cap)
    with ThreadPoolExecutor(max_workers=nproc) as ex:
        rs = list(ex.map(work, parts))
    out = [None] * n
    errs = []
    for idx, (o, dt, err) in zip(parts, rs):
        if o is None or len(o) != len(idx):
            errs.append(err or "unexpected output")
            continue
        for i, a in zip(idx, o):
            out[i] = a
    if errs or any(a is None for a in out):
        return None, time.time() - t0, "; ".join(errs)[:300]
    return out, time.time() - t0, ""


def extract_matrix(scratch, say):
    td = os.path.join(scratch, "extract_target")
    env = dict(os.environ, CARGO_NET_OFFLINE="true")
    here = os.path.join(os.path.dirname(os.path.abspath(__file__)), "extract")
    repo = os.environ.get("VERIF_REPO", "/repo")
    if repo != "/repo":   # development aid: check a scratch worktree instead of /repo
        import shutil
        dst = os.path.join(scratch, "extract_crate")
        if not os.path.exists(dst):
            shutil.copytree(here, dst, ignore=shutil.ignore_patterns("target"))
            pth = os.path.join(dst, "Cargo.toml")
            txt = open(pth).read().replace('"/repo/', '"' + repo.rstrip("/") + "/")
            open(pth, "w").write(txt)
        here = dst
    r = subprocess.run(["cargo", "run", "-q", "--offline", "--manifest-path", os.path.join(here, "Cargo.toml"),
                        "--target-dir", td, "--", "xorshift-basis"], capture_output=True, text=True, env=env)
    if r.returncode != 0:
        return None, None, r.stderr[-2000:]
    cols = [int(l, 16) for l in r.stdout.split()]
    r2 = subprocess.run(["cargo", "run", "-q", "--offline", "--manifest-path", os.path.join(here, "Cargo.toml"),
                         "--target-dir", td, "--", "xorshift-samples"], capture_output=True, text=True, env=env)
    samples = [tuple(int(v, 16) for v in l.split()) for l in r2.stdout.strip().split("\n")]
    return cols, samples, ""


def obligations(tier, scratch, say):
    """called by ./check; returns a list of obligation records"""
    res = []
    t0 = time.time()
    cols, samples, err = extract_matrix(scratch, say)
    base = {"name": "c19_period_chain", "harness": "c19_period_chain", "cfg": "native+z3", "kind": "smt-chain",
            "domain": "all 2^64 states (free 64-bit vector x in every query); matrix M = images of the 64 basis states under the real next_bits()",
            "oracle": "order of M is exactly 2^64-1 and no non-zero state has a shorter period",
            "functions_encoded": ["retrofire_core::math::rand::Xorshift64::next_bits (as its GF(2) matrix; linearity proven by Kani harness c19_step_linear)"]}
    if cols is None or len(cols) != 64:
        res.append(dict(base, verdict="machinery", why="extractor failed: " + err))
        return res
    # translator validation: the matrix reproduces the real step on 32 native samples
    bad = [(s, n) for s, n in samples if mat_apply(cols, s) != n]
    if bad:
        # the step is not linear => Kani's c19_step_linear reports it; here: inconclusive
        res.append(dict(base, verdict="inconclusive", why=f"matrix does not reproduce the real step on {len(bad)} native samples (step not GF(2)-linear?)"))
        return res
    sc = build(cols)
    text = "\n".join(sc.lines) + "\n"
    with open(os.path.join(scratch, "c19_period.smt2"), "w") as f:
        f.write(text)
    cap = 300 if tier == "quick" else 1200
    out, dt, err = run_parallel(["z3", "-in"], sc, cap)
    rec = dict(base, queries=len(sc.expect), solver="z3 " + subprocess.run(["z3", "--version"], capture_output=True, text=True).stdout.strip())
    if out is None or len(out) != len(sc.expect) or any("error" in l for l in out):
        rec.update(verdict="inconclusive", why=f"z3: {err or 'unexpected output'}", solver_s=round(dt, 1))
        res.append(rec)
        return res
    wrong = [(n, o, e) for n, o, e in zip(sc.names, out, sc.expect) if o != e]
    rec["solver_s"] = round(dt, 1)
    rec["wall_s"] = round(time.time() - t0, 1)
    # cross-check with cvc5
    if tier == "thorough":
        out2, dt2, err2 = run_parallel(["z3-new", "-in"], sc, cap)
    else:
        out2, dt2, err2 = None, 0.0, "second-solver cross-check (z3 5.1) runs in the thorough tier"
    if out2 is not None and len(out2) == len(sc.expect):
        rec["second_solver_agrees"] = (out2 == out)
        rec["second_solver_s"] = round(dt2, 1)
        if out2 != out:
            rec.update(verdict="inconclusive", why="z3 4.8.12 and z3 5.1 disagree")
            res.append(rec)
            return res
    else:
        rec["second_solver_agrees"] = None
    if wrong:
        n, o, e = wrong[0]
        # chain links are proposals of this script: a failing *link* is a machinery bug;
        # a failing final query is a property violation, demonstrated natively below
        final = [w for w in wrong if w[0].startswith("FINAL")]
        if not final:
            rec.update(verdict="machinery", why=f"witness chain link rejected: {n}: got {o}, expected {e}")
        else:
            path = os.path.join(scratch, "c19_period_violation.txt")
            rec.update(verdict="violation", why=f"{final[0][0]}: solver says {final[0][1]}",
                       replay=write_period_replay(cols, final[0][0]))
        res.append(rec)
        return res
    rec.update(verdict="discharged", why="")
    rec["sample_links"] = sc.names[:2] + sc.names[-9:]
    res.append(rec)
    return res


def write_period_replay(cols, which):
    d = os.path.join(os.path.dirname(os.path.dirname(os.path.abspath(__file__))), "replay", "C19")
    os.makedirs(d, exist_ok=True)
    p = os.path.join(d, "period_violation.txt")
    with open(p, "w") as f:
        f.write("xorshift step matrix (images of basis states, from the real code):\n")
        f.write("\n".join(f"{c:016x}" for c in cols) + "\n")
        f.write(f"failed query: {which}\n")
        f.write("re-check: ./check C19 (the chain is regenerated from /repo)\n")
    return p


if __name__ == "__main__":
    import tempfile, shutil, json
    d = tempfile.mkdtemp(prefix="c19p_")
    try:
        r = obligations(sys.argv[1] if len(sys.argv) > 1 else "quick", d, print)
        print(json.dumps(r, indent=1)[:3000])
    finally:
        shutil.rmtree(d, ignore_errors=True)
