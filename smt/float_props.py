#!/usr/bin/env python3
"""SMT obligations (mir2smt + cvc5) for the retrofire functions that go through
float `%`: fallback::rem_euclid (C20) and Angle::wrap (C18).

Every obligation: MIR of the function is dumped from /repo now, symbolically
executed into an SMT term over symbolic f32 inputs, the negated property is
asserted, cvc5 decides.  unsat = holds for every input in the stated domain;
sat = a concrete input, which is replayed natively (rfv-extract built from
/repo runs the real function on it) before it is reported.

Translator validation: before any obligation is trusted, the SMT term is
evaluated by the solver on ~250 concrete test vectors and compared bit for bit
with the real function run natively on the same vectors.
"""
import os
import re
import struct
import subprocess
import sys
import time
from concurrent.futures import ThreadPoolExecutor

HERE = os.path.dirname(os.path.abspath(__file__))
sys.path.insert(0, HERE)
import mir2smt as M  # noqa: E402

REPO = os.environ.get("VERIF_REPO", "/repo")
F32 = M.F32


def fbits(term_value):
    """parse a cvc5 model value `(fp #b0 #b... #b...)` into 32 bits"""
    m = re.search(r"\(fp #b([01]) #b([01]{8}) #b([01]{23})\)", term_value)
    if not m:
        return None
    return int(m.group(1) + m.group(2) + m.group(3), 2)


def f_of(bits):
    return struct.unpack("<f", struct.pack("<I", bits))[0]


def fp_lit(bits):
    return f"(fp #b{bits >> 31:01b} #b{(bits >> 23) & 0xff:08b} #b{bits & 0x7fffff:023b})"


def extract_crate(scratch):
    """scratch copy of smt/extract pointing at REPO"""
    src = os.path.join(HERE, "extract")
    if REPO == "/repo":
        return src
    import shutil
    dst = os.path.join(scratch, "extract_crate")
    if not os.path.exists(dst):
        shutil.copytree(src, dst, ignore=shutil.ignore_patterns("target"))
        p = os.path.join(dst, "Cargo.toml")
        txt = open(p).read().replace('"/repo/', '"' + REPO.rstrip("/") + "/")
        open(p, "w").write(txt)
    return dst


def native(scratch, what, features=()):
    td = os.path.join(scratch, "extract_target")
    cmd = ["cargo", "run", "-q", "--offline", "--manifest-path", os.path.join(extract_crate(scratch), "Cargo.toml"), "--target-dir", td]
    if features:
        cmd += ["--features", ",".join(features)]
    cmd += ["--", what]
    env = dict(os.environ, CARGO_NET_OFFLINE="true")
    p = subprocess.run(cmd, capture_output=True, text=True, env=env)
    if p.returncode != 0:
        raise M.Unsupported("extractor failed: " + p.stderr[-300:])
    return [[int(v, 16) for v in l.split()] for l in p.stdout.strip().split("\n")]


class Encoded:
    """a function symbolically executed over named f32 inputs"""

    def __init__(self, funcs, pattern, arg_names, newtype_args=False, extern=None):
        self.f = M.find_func(funcs, pattern)
        self.ex = M.Exec(funcs, extern=extern)
        args = [M.Val(n, t) for n, (_, t) in zip(arg_names, self.f.params)]
        outs = self.ex.run(self.f, args)
        self.result = self.ex.merge(outs, self.f.ret).term
        self.inputs = arg_names
        self.panic = "(or false " + " ".join(p for p, _ in self.ex.panics) + ")" if self.ex.panics else "false"

    def header(self):
        s = ["(set-logic ALL)", M.PRELUDE]
        for n in self.inputs:
            s.append(f"(declare-const {n} {F32})")
        s += self.ex.decls
        s += [f"(assert {c})" for c in self.ex.side]
        s.append(f"(define-fun result () {F32} {self.result})")
        return "\n".join(s) + "\n"


def validate(enc, vectors, n_in, cap=120):
    """solver-evaluates the encoding on concrete vectors; returns (n_ok, mismatches)"""
    def one(v):
        ins, want = v[:n_in], v[n_in]
        sc = enc.header() + "".join(f"(assert (= {n} {fp_lit(b)}))\n" for n, b in zip(enc.inputs, ins))
        sc += "(check-sat)\n(get-value (result))\n"
        st, out, dt = M.run_cvc5(sc, cap)
        got = fbits(out)
        if st != "sat" or got is None:
            return ("error", v, out[:200])
        nan = lambda b: (b & 0x7f800000) == 0x7f800000 and (b & 0x7fffff) != 0
        if got == want or (nan(got) and nan(want)):
            return ("ok", v, None)
        return ("mismatch", v, f"smt {got:08x} native {want:08x}")
    with ThreadPoolExecutor(max_workers=12) as ex:
        rs = list(ex.map(one, vectors))
    bad = [r for r in rs if r[0] != "ok"]
    return len(rs) - len(bad), bad


class Sym:
    """several symbolic instantiations of MIR functions sharing one SMT script"""

    def __init__(self, funcs, input_names):
        self.funcs = funcs
        self.ex = M.Exec(funcs)
        self.inputs = input_names
        self.defs = []

    def call(self, pattern, args):
        f = M.find_func(self.funcs, pattern)
        n0 = len(self.ex.panics)
        outs = self.ex.run(f, args)
        v = self.ex.merge(outs, f.ret)
        pan = [p for p, _ in self.ex.panics[n0:]]
        return v, ("(or false " + " ".join(pan) + ")" if pan else "false")

    def header(self, extra_defs=""):
        s = ["(set-logic ALL)", M.PRELUDE]
        for n in self.inputs:
            s.append(f"(declare-const {n} {F32})")
        s += self.ex.decls
        s += [f"(assert {c})" for c in self.ex.side]
        return "\n".join(s) + "\n" + extra_defs


def color3(a, b, c):
    arr = M.Val(None, "[f32; 3]", fields=[M.Val(a, "f32"), M.Val(b, "f32"), M.Val(c, "f32")])
    return M.Val(None, "Color", fields=[arr, M.Val(None, "()", fields=[], kind="unit")])


def chans(v):
    return [x.term for x in v.fields[0].fields]


TO_RGB = r"color.rs:\d+:1: \d+:18>::to_rgb$"
TO_HSL = r"color.rs:\d+:1: \d+:18>::to_hsl$"


def pick(funcs, tail, param_ty):
    hits = [k for k, f in funcs.items() if k.endswith(tail) and f.params and f.params[0][1].replace(" ", "") == param_ty.replace(" ", "")]
    if len(hits) != 1:
        raise M.Unsupported(f"{tail} on {param_ty}: {len(hits)} MIR functions")
    return "^" + re.escape(hits[0]) + "$"


def unit(n):
    return f"(fp.leq {c(0)} {n}) (fp.leq {n} {c(1)})"


def f32r(x):
    """round a Python float to f32"""
    try:
        return struct.unpack("<f", struct.pack("<f", x))[0]
    except OverflowError:
        return float("inf") if x > 0 else float("-inf")


def native_check(scratch, model, inputs, spec):
    """spec = (extractor command, predicate(in_floats, out_floats) -> violated?)"""
    cmd, pred = spec
    vals = {}
    for m in re.finditer(r"\(define-fun (\w+) \(\) \(_ FloatingPoint 8 24\) (\(fp #b[01] #b[01]{8} #b[01]{23}\))\)", model):
        vals[m.group(1)] = fbits(m.group(2))
    try:
        bits = [vals[n] for n in inputs]
    except KeyError:
        return None
    td = os.path.join(scratch, "extract_target")
    out = subprocess.run(["cargo", "run", "-q", "--offline", "--manifest-path", os.path.join(extract_crate(scratch), "Cargo.toml"), "--target-dir", td,
                          "--", cmd] + [f"{b:08x}" for b in bits], capture_output=True, text=True)
    toks = out.stdout.split()
    ins = [f_of(b) for b in bits]
    if toks and toks[0] == "PANIC":
        return dict(inputs=ins, input_bits=[f"{b:08x}" for b in bits], outputs="PANIC", violated_natively=True)
    try:
        outs = [f_of(int(t, 16)) for t in toks[:3]]
    except ValueError:
        return None
    return dict(inputs=ins, input_bits=[f"{b:08x}" for b in bits], outputs=outs, violated_natively=bool(pred(ins, outs)))


def c16_obligations(funcs, tier, scratch, say, cap):
    res = []
    tasks = []   # (args of run_queries): the groups are independent and run concurrently
    to_rgb = pick(funcs, "::to_rgb", "Color<[f32; 3], Hsl>")
    to_hsl = pick(funcs, "::to_hsl", "Color<[f32; 3], Rgb>")

    def run_queries(name, sym, defs, queries, domain, oracle):
        rec = dict(name=name, harness=name, cfg="mir(bare)+cvc5", kind="smt", domain=domain, oracle=oracle,
                   functions_encoded=sorted("retrofire_core::" + x for x in sym.ex.encoded), queries=len(queries))
        t0 = time.time()

        natives = {q[0]: q[3] for q in queries if len(q) > 3}

        def run(q):
            label, body, expect = q[:3]
            st, out, dt = M.run_cvc5(sym.header(defs) + body + "(check-sat)\n(get-model)\n", cap)
            return label, st, out, dt, expect
        with ThreadPoolExecutor(max_workers=8) as ex:
            outs = list(ex.map(run, queries))
        rec["solver_s"] = round(sum(o[3] for o in outs), 1)
        rec["wall_s"] = round(time.time() - t0, 1)
        rec["query_results"] = [{"query": o[0], "answer": o[1], "s": round(o[3], 1)} for o in outs]
        bad = [o for o in outs if o[1] != o[4]]
        cex = [o for o in bad if o[1] == "sat" and o[4] == "unsat"]
        if cex:
            # replay every counterexample natively: the real function on the model's inputs
            reproduced, failed = [], []
            for o in cex:
                spec = natives.get(o[0])
                info = native_check(scratch, o[2], sym.inputs, spec) if spec else None
                (reproduced if info and info.get("violated_natively") else failed).append((o[0], info))
            if reproduced:
                d = os.path.join(os.path.dirname(HERE), "replay", "C16")
                os.makedirs(d, exist_ok=True)
                path = os.path.join(d, f"{name}.json")
                import json
                json.dump([dict(query=q_, **(i or {})) for q_, i in reproduced], open(path, "w"), indent=1)
                rec.update(verdict="violation", replay=path,
                           why="; ".join(f"{q_} -- native: inputs {i['inputs']} -> {i['outputs']}" for q_, i in reproduced)[:900])
            else:
                rec.update(verdict="machinery", why="counterexample does not reproduce natively: " + str(failed[0])[:400])
            return rec
        if not bad:
            rec.update(verdict="discharged", why="")
        elif any(o[1] not in ("sat", "unsat") for o in bad):
            o = [o for o in bad if o[1] not in ("sat", "unsat")][0]
            rec.update(verdict="inconclusive", why="; ".join(f"{o[0]}: solver answered {o[1]}" for o in bad if o[1] not in ("sat", "unsat"))[:600])
        else:
            o = bad[0]
            rec.update(verdict="inconclusive", why=f"vacuity witness failed: {o[0]}")
        return rec

    # ---- translator validation on native vectors
    for what, pat, names in (("hsl-to-rgb-vectors", to_rgb, ["h", "s", "l"]), ("rgb-to-hsl-vectors", to_hsl, ["r", "g", "b"])):
        vec = native(scratch, what)
        sym = Sym(funcs, names)
        v, _ = sym.call(pat, [color3(*names)])
        outs = chans(v)
        defs = "".join(f"(define-fun o{i} () {F32} {t})\n" for i, t in enumerate(outs))

        def one(row):
            sc = sym.header(defs) + "".join(f"(assert (= {n} {fp_lit(b)}))\n" for n, b in zip(names, row[:3]))
            sc += "(check-sat)\n(get-value (o0 o1 o2))\n"
            st, out, dt = M.run_cvc5(sc, 120)
            got = [fbits(x) for x in re.findall(r"\(fp #b[01] #b[01]{8} #b[01]{23}\)", out)]
            if st != "sat" or len(got) != 3:
                return ("error", row, out[:200])
            nan = lambda b: (b & 0x7f800000) == 0x7f800000 and (b & 0x7fffff) != 0
            ok = all(g == w or (nan(g) and nan(w)) or (g | 0x80000000) == (w | 0x80000000) == 0x80000000 for g, w in zip(got, row[3:]))
            return ("ok" if ok else "mismatch", row, [f"{g:08x}" for g in got])
        with ThreadPoolExecutor(max_workers=12) as ex:
            rs = list(ex.map(one, vec))
        bad = [r for r in rs if r[0] != "ok"]
        say(f"  translator validation ({what}): {len(rs) - len(bad)}/{len(rs)} native vectors agree bit for bit")
        if bad:
            return [dict(name="c16_float_hsl_smt", harness="c16_float_hsl_smt", cfg="mir+cvc5", kind="smt", domain="", verdict="machinery",
                         why=f"translator validation failed ({what}): {bad[0]}")]

    isint_ = lambda t: f"(fp.eq (fp.roundToIntegral RNE {t}) {t})"
    on = lambda n, den: f"(assert {isint_('(fp.mul RNE ' + n + ' ' + c(den) + ')')})\n"
    full = tier == "thorough"
    # quick tier: dyadic lattices (hue k/32: positions 3k/16 within the sextants - interiors and all boundaries;
    # s, l, r, g, b on k/8); thorough tier: every float in [0,1] (capped; may stay inconclusive)
    lat_hsl = "" if full else on("h", 32) + on("s", 8) + on("l", 8)
    lat_rgb = "" if full else on("r", 8) + on("g", 8) + on("b", 8)
    dom_txt_hsl = "every float h, s, l in [0,1]" if full else "h = k/32, s = i/8, l = j/8 (2673 colours: every sextant boundary and two interior hues per sextant)"
    dom_txt_rgb = "every float r, g, b in [0,1]" if full else "r, g, b on k/8 (729 colours)"

    # ---- HSL -> RGB: total, in range, sextants, hue 1 == hue 0, grays
    sym = Sym(funcs, ["h", "s", "l"])
    v, pan = sym.call(to_rgb, [color3("h", "s", "l")])
    r_, g_, b_ = chans(v)
    v0, pan0 = sym.call(to_rgb, [color3(c(0), "s", "l")])
    v1, pan1 = sym.call(to_rgb, [color3(c(1), "s", "l")])
    vg, _ = sym.call(to_rgb, [color3("h", c(0), "l")])
    defs = (f"(define-fun R () {F32} {r_})\n(define-fun G () {F32} {g_})\n(define-fun B () {F32} {b_})\n"
            f"(define-fun h6 () {F32} (fp.mul RNE h {c(6)}))\n")
    dom_all = f"(assert (and {unit('h')} {unit('s')} {unit('l')}))\n"
    dom = dom_all + lat_hsl
    eps = c(2 ** -20)
    inr = lambda t: f"(fp.leq (fp.neg {eps}) {t}) (fp.leq {t} (fp.add RNE {c(1)} {eps}))"
    order = {0: "(fp.geq R G) (fp.geq G B)", 1: "(fp.geq G R) (fp.geq R B)", 2: "(fp.geq G B) (fp.geq B R)",
             3: "(fp.geq B G) (fp.geq G R)", 4: "(fp.geq B R) (fp.geq R G)", 5: "(fp.geq R B) (fp.geq B G)"}
    E = 2.0 ** -20
    out_of_unit = lambda i, o: any(not (-E <= v <= 1 + E) for v in o)   # NaN counts as out of range
    ordp = {0: lambda r, g, b: r >= g >= b, 1: lambda r, g, b: g >= r >= b, 2: lambda r, g, b: g >= b >= r,
            3: lambda r, g, b: b >= g >= r, 4: lambda r, g, b: b >= r >= g, 5: lambda r, g, b: r >= b >= g}
    q = [("no panic (unreachable sextant arm), every float h, s, l in [0,1]", dom_all + f"(assert {pan})\n", "unsat", ("hsl-to-rgb-at", lambda i, o: False))]
    for k in range(6):
        sx = f"(assert (and (fp.geq h6 {c(k)}) (fp.leq h6 {c(k + 1)})))\n"
        q.append((f"channels in [0,1] (slack 2^-20), hue*6 in [{k},{k+1}]", dom + sx + f"(assert (not (and {inr('R')} {inr('G')} {inr('B')})))\n", "unsat", ("hsl-to-rgb-at", out_of_unit)))
    for k in range(6):
        q.append((f"sextant {k}: hue*6 in ({k},{k+1}) => channel order of that sextant",
                  dom + f"(assert (and (fp.gt h6 {c(k)}) (fp.lt h6 {c(k + 1)})))\n(assert (not (and {order[k]})))\n", "unsat",
                  ("hsl-to-rgb-at", (lambda kk: lambda i, o: not ordp[kk](*o))(k))))
    q.append(("hue 1 == hue 0", f"(assert (and {unit('s')} {unit('l')}))\n" + ("" if full else on("s", 8) + on("l", 8)) + "(assert (not (and " +
              " ".join(f"(fp.eq {a} {b})" for a, b in zip(chans(v0), chans(v1))) + ")))\n", "unsat"))
    q.append(("grays: s = 0 => r = g = b = l, every float h, l in [0,1]", f"(assert (and {unit('h')} {unit('l')}))\n(assert (not (and " +
              " ".join(f"(fp.eq {a} l)" for a in chans(vg)) + ")))\n", "unsat"))
    q.append(("witness: a saturated mid-sextant colour", dom + f"(assert (and (fp.gt h6 {c(1.0)}) (fp.lt h6 {c(1.5)}) (fp.gt s {c(0.8)}) (fp.eq l {c(0.5)})))\n", "sat"))
    tasks.append(("c16_hsl_to_rgb_float", sym, defs, q, dom_txt_hsl,
                           "no panic; channels in [0,1]; channel order matches the hue sextant; hue 1 == hue 0; grays"))

    # ---- RGB -> HSL: in range, grays
    sym = Sym(funcs, ["r", "g", "b"])
    v, pan = sym.call(to_hsl, [color3("r", "g", "b")])
    H_, S_, L_ = chans(v)
    vg, _ = sym.call(to_hsl, [color3("r", "r", "r")])
    defs = f"(define-fun H () {F32} {H_})\n(define-fun S () {F32} {S_})\n(define-fun L () {F32} {L_})\n"
    dom_all = f"(assert (and {unit('r')} {unit('g')} {unit('b')}))\n"
    dom = dom_all + lat_rgb
    q = [("no panic", dom_all + f"(assert {pan})\n", "unsat"),
         ("h, s, l in [0,1] (slack 2^-20)", dom + f"(assert (not (and {inr('H')} {inr('S')} {inr('L')})))\n", "unsat", ("rgb-to-hsl-at", out_of_unit)),
         ("grays: zero saturation, lightness kept", f"(assert (and {unit('r')} (fp.eq g r) (fp.eq b r)))\n(assert (not (and (fp.eq {chans(vg)[1]} {c(0)}) (fp.eq {chans(vg)[2]} r) (fp.eq {chans(vg)[0]} {c(0)}))))\n", "unsat",
          ("rgb-to-hsl-at", lambda i, o: not (o[0] == 0.0 and o[1] == 0.0 and o[2] == i[0]))),
         ("witness: hue wraps (blue > green, red max)", dom + "(assert (and (fp.gt r b) (fp.gt b g)))\n", "sat")]
    # the tiny-value region where the old saturation formula blew up, on its own (fast for the solver)
    tiny = f"(assert (and (fp.leq r {c(2.0 ** -24)}) (fp.leq g {c(2.0 ** -24)}) (fp.leq b {c(2.0 ** -24)})))\n"
    q.append(("h, s, l in [0,1] for every float colour below 2^-24", dom_all + tiny + f"(assert (not (and {inr('H')} {inr('S')} {inr('L')})))\n", "unsat", ("rgb-to-hsl-at", out_of_unit)))
    tasks.append(("c16_rgb_to_hsl_float", sym, defs, q, dom_txt_rgb + "; grays and the sub-2^-24 region: every float", "no panic; h, s, l in [0,1]; grays have s = 0, l = v"))

    # ---- round trip on a dyadic lattice (quick) / all floats (thorough, capped)
    sym = Sym(funcs, ["r", "g", "b"])
    hv, pan_a = sym.call(to_hsl, [color3("r", "g", "b")])
    back, pan_b = sym.call(to_rgb, [M.Val(None, "Color", fields=[hv.fields[0], M.Val(None, "()", fields=[], kind="unit")])])
    R2, G2, B2 = chans(back)
    defs = f"(define-fun R2 () {F32} {R2})\n(define-fun G2 () {F32} {G2})\n(define-fun B2 () {F32} {B2})\n"
    tol = c(1e-4)
    close = lambda a, b: f"(fp.leq (fp.abs (fp.sub RNE {a} {b})) {tol})"
    isint = lambda t: f"(fp.eq (fp.roundToIntegral RNE {t}) {t})"
    lat = "".join(f"(assert {isint('(fp.mul RNE ' + n + ' ' + c(16) + ')')})\n" for n in ("r", "g", "b"))
    dom = f"(assert (and {unit('r')} {unit('g')} {unit('b')}))\n"
    far = lambda i, o: any(not (abs(a - b) <= 1e-4) for a, b in zip(i, o))
    lat8 = on("r", 8) + on("g", 8) + on("b", 8)
    q = []
    for nm, cond in (("red is the maximum", "(and (fp.geq r g) (fp.geq r b))"), ("green is the strict maximum over red", "(and (fp.gt g r) (fp.geq g b))"), ("blue is the strict maximum", "(and (fp.gt b r) (fp.gt b g))")):
        q.append((f"round trip within 1e-4 on the k/8 lattice, {nm}", dom + lat8 + f"(assert {cond})\n(assert (not (and {close('R2', 'r')} {close('G2', 'g')} {close('B2', 'b')})))\n", "unsat", ("rgb-roundtrip-at", far)))
    q.append(("no panic on the round trip (k/8 lattice)", dom + lat8 + f"(assert (or {pan_a} {pan_b}))\n", "unsat"))
    if tier == "thorough":
        lat16 = on("r", 16) + on("g", 16) + on("b", 16)
        q.append(("round trip within 1e-4 on the k/16 lattice", dom + lat16 + f"(assert (not (and {close('R2', 'r')} {close('G2', 'g')} {close('B2', 'b')})))\n", "unsat", ("rgb-roundtrip-at", far)))
    tasks.append(("c16_float_round_trip", sym, defs, q, "r, g, b = k/8 (quick: 729 colours, every sextant); k/16 (thorough)",
                           "to_hsl then to_rgb returns the colour within 1e-4 per channel"))
    # ---- "no in-range input panics", debug builds included: the same functions from the MIR built
    #      *with* debug assertions (the range debug_assert!s of both conversions become panic paths)
    try:
        funcs_d = M.parse_mir(M.dump_mir(REPO, [], scratch, "C16", debug_assertions=True))
        to_rgb_d = pick(funcs_d, "::to_rgb", "Color<[f32; 3], Hsl>")
        to_hsl_d = pick(funcs_d, "::to_hsl", "Color<[f32; 3], Rgb>")
        sym = Sym(funcs_d, ["r", "g", "b"])
        _, pan_h = sym.call(to_hsl_d, [color3("r", "g", "b")])
        dom_r = f"(assert (and {unit('r')} {unit('g')} {unit('b')}))\n"
        qd = [("to_hsl never panics (debug assertions on), every float r, g, b in [0,1]", dom_r + f"(assert {pan_h})\n", "unsat", ("rgb-to-hsl-at", lambda i, o: False)),
              ("witness: the debug assertion is reachable when the input is out of range", f"(assert (fp.gt r {c(2)}))\n(assert {pan_h})\n", "sat")]
        tasks.append(("c16_rgb_to_hsl_debug_asserts", sym, "", qd, "every float r, g, b in [0,1]; MIR built with debug assertions",
                               "no panic: the function's own range assertions (0 <= h,s,l <= 1, exactly) hold"))
        sym = Sym(funcs_d, ["h", "s", "l"])
        _, pan_r = sym.call(to_rgb_d, [color3("h", "s", "l")])
        dom_h = f"(assert (and {unit('h')} {unit('s')} {unit('l')}))\n"
        qd = [("to_rgb never panics (debug assertions on), h = k/32, s, l on k/8", dom_h + on("h", 32) + on("s", 8) + on("l", 8) + f"(assert {pan_r})\n", "unsat", ("hsl-to-rgb-at", lambda i, o: False)),
              ("to_rgb never panics (debug assertions on), full saturation, every float h, l in [0,1]", dom_h + f"(assert (fp.eq s {c(1)}))\n(assert {pan_r})\n", "unsat", ("hsl-to-rgb-at", lambda i, o: False))]
        if tier == "thorough":
            qd.append(("to_rgb never panics (debug assertions on), every float h, s, l in [0,1]", dom_h + f"(assert {pan_r})\n", "unsat", ("hsl-to-rgb-at", lambda i, o: False)))
        tasks.append(("c16_hsl_to_rgb_debug_asserts", sym, "", qd, "lattice h=k/32, s,l=k/8; s = 1 with every float h, l; (thorough: every float h, s, l); MIR built with debug assertions",
                               "no panic: channels stay within [0,1] exactly, the sextant arm is never unreachable"))
    except M.Unsupported as e:
        res.append(dict(name="c16_debug_asserts", harness="c16_debug_asserts", cfg="mir(bare,debug)+cvc5", kind="smt", domain="", verdict="inconclusive",
                        why=f"outside the translator's subset: {e}"))
    with ThreadPoolExecutor(max_workers=len(tasks) or 1) as ex:
        res += list(ex.map(lambda a: run_queries(*a), tasks))
    return res


def finite(n):
    return f"(not (fp.isNaN {n})) (not (fp.isInfinite {n}))"


def c(v):
    v = float(v)
    lit = f"(- {-v!r})" if v < 0 else repr(v)
    if "e" in lit:
        lit = f"{v:.40f}" if v >= 0 else f"(- {-v:.40f})"
    return f"((_ to_fp 8 24) RNE {lit})"


def obligations(prop, tier, scratch, say):
    """returns obligation records for property `prop` (C20 or C18)"""
    res = []
    t_all = time.time()
    cap = 600 if tier == "quick" else 1800
    try:
        mir = M.dump_mir(REPO, ["libm"] if prop == "C18" else [], scratch, prop)
        funcs = M.parse_mir(mir)
    except M.Unsupported as e:
        return [dict(name=f"{prop.lower()}_smt", harness=f"{prop.lower()}_smt", cfg="mir+cvc5", verdict="machinery", why=str(e), domain="", kind="smt")]

    def record(name, enc, domain, oracle, queries, cfg):
        """queries: list of (label, extra assertions, expect) ; runs them in parallel"""
        rec = dict(name=name, harness=name, cfg=cfg, kind="smt", domain=domain, oracle=oracle,
                   functions_encoded=sorted("retrofire_core::" + x for x in enc.ex.encoded), queries=len(queries))
        t0 = time.time()

        def run(q):
            label, body, expect = q
            st, out, dt = M.run_cvc5(enc.header() + body + "(check-sat)\n(get-model)\n", cap)
            return label, st, out, dt, expect
        with ThreadPoolExecutor(max_workers=8) as ex:
            outs = list(ex.map(run, queries))
        rec["solver_s"] = round(sum(o[3] for o in outs), 1)
        rec["wall_s"] = round(time.time() - t0, 1)
        rec["query_results"] = [{"query": o[0], "answer": o[1], "s": round(o[3], 1)} for o in outs]
        bad = [o for o in outs if o[1] != o[4]]
        if not bad:
            rec.update(verdict="discharged", why="")
        elif any(o[1] in ("timeout", "error") or o[1] not in ("sat", "unsat") for o in bad):
            o = [o for o in bad if o[1] not in ("sat", "unsat")][0]
            rec.update(verdict="inconclusive", why=f"{o[0]}: solver answered {o[1]} {o[2][:120] if o[1]=='error' else ''}")
        else:
            o = bad[0]
            if o[4] == "sat":
                rec.update(verdict="inconclusive", why=f"vacuity witness failed: {o[0]}")
            else:
                rec.update(verdict="counterexample", why=o[0], model=o[2])
        return rec

    try:
        if prop == "C16":
            res += c16_obligations(funcs, tier, scratch, say, cap)
        elif prop == "C20":
            enc = Encoded(funcs, r"float::fallback::rem_euclid$", ["x", "m"])
            vec = native(scratch, "rem-euclid-vectors")
            ok, bad = validate(enc, vec, 2)
            say(f"  translator validation (fallback::rem_euclid): {ok}/{len(vec)} native vectors agree bit for bit")
            if bad:
                return [dict(name="c20_rem_euclid_smt", harness="c20_rem_euclid_smt", cfg="mir+cvc5", kind="smt", domain="", verdict="machinery",
                             why=f"translator validation failed: {bad[0]}")]
            dom = f"(assert (and {finite('x')} {finite('m')} (fp.gt m {c(0)}) (fp.leq (fp.abs x) (fp.mul RNE {c(1024)} m))))\n"
            q = [
                ("range: 0 <= r <= m", dom + f"(assert (not (and (fp.leq {c(0)} result) (fp.leq result m))))\n", "unsat"),
                ("no panic", dom + f"(assert {enc.panic})\n", "unsat"),
                ("witness: negative x reaches r == m", dom + f"(assert (and (fp.isNegative x) (fp.eq result m)))\n", "sat"),
                ("witness: interior value", dom + f"(assert (and (fp.gt result {c(0)}) (fp.lt result m) (fp.lt x {c(-3)})))\n", "sat"),
            ]
            r1 = record("c20_rem_euclid_range", enc, "every finite x and finite m > 0 with |x| <= 1024*m (all 2^32 x 2^31 bit patterns in that region)",
                        "0 <= rem_euclid(x,m) <= m; no panic", q, "mir(bare)+cvc5")
            r1["translator_validation"] = f"{ok}/{len(vec)} native vectors"
            res.append(r1)
            # congruence on the dyadic lattice: x, m multiples of 1/16; (x - r)/m must be an integer.
            # On this lattice x - r is exact and a non-integer quotient is at least 1/(16 m) away from
            # an integer, far more than the rounding of one division, so "fl((x-r)/m) integral" is exact.
            K, J = (256, 64) if tier == "quick" else (1024, 256)
            isint = lambda t: f"(fp.eq (fp.roundToIntegral RNE {t}) {t})"
            lat = (f"(assert (and {finite('x')} {finite('m')} (fp.gt m {c(0)}) (fp.leq (fp.abs x) {c(K / 16)}) (fp.leq m {c(J / 16)})))\n"
                   f"(assert (and {isint('(fp.mul RNE x ' + c(16) + ')')} {isint('(fp.mul RNE m ' + c(16) + ')')}))\n"
                   f"(define-fun quo () {F32} (fp.div RNE (fp.sub RNE x result) m))\n")
            q = [
                ("congruence: (x - r)/m is an integer and 0 <= r <= m", lat + f"(assert (not (and {isint('quo')} (fp.leq {c(0)} result) (fp.leq result m))))\n", "unsat"),
                ("witness: negative non-multiple", lat + f"(assert (and (fp.lt x {c(0)}) (fp.lt result m) (fp.gt result {c(0)})))\n", "sat"),
            ]
            r2 = record("c20_rem_euclid_congruent", enc, f"x = k/16, m = j/16, |k| <= {K}, 1 <= j <= {J} (all pairs at once)",
                        "x - rem_euclid(x,m) is a whole multiple of m (and the result lies in [0,m])", q, "mir(bare)+cvc5")
            res.append(r2)
        elif prop == "C18":
            enc = Encoded(funcs, r"angle::<impl at .*>::wrap$", ["a", "lo", "hi"])
            vec = native(scratch, "wrap-vectors", features=("libm",))
            ok, bad = validate(enc, vec, 3)
            say(f"  translator validation (Angle::wrap): {ok}/{len(vec)} native vectors agree bit for bit")
            if bad:
                return [dict(name="c18_wrap_smt", harness="c18_wrap_smt", cfg="mir+cvc5", kind="smt", domain="", verdict="machinery",
                             why=f"translator validation failed: {bad[0]}")]
            # Range, compositionally: wrap's own MIR with the call to rem_euclid replaced by a fresh
            # value r constrained only by rem_euclid's contract (0 <= r <= m for finite x, m > 0,
            # |x| <= 1024 m), which c20_rem_euclid_range discharges on the real rem_euclid.
            def rem_contract(ex, args):
                n = len(ex.decls)
                r = f"rem{n}"
                ex.decls.append(f"(declare-const {r} {F32})")
                x, m = args[0].term, args[1].term
                ex.side.append(f"(=> (and {finite(x)} {finite(m)} (fp.gt {m} {c(0)}) (fp.leq (fp.abs {x}) (fp.mul RNE {c(1024)} {m}))) (and (fp.leq {c(0)} {r}) (fp.leq {r} {m})))")
                return M.Val(r, "f32")
            encs = Encoded(funcs, r"angle::<impl at .*>::wrap$", ["a", "lo", "hi"], extern={r"rem_euclid$": rem_contract})
            dom = (f"(assert (and {finite('a')} {finite('lo')} {finite('hi')} (fp.lt lo hi)))\n"
                   f"(assert (and (fp.leq (fp.abs a) {c(2.0 ** 20)}) (fp.leq (fp.abs lo) {c(2.0 ** 20)}) (fp.leq (fp.abs hi) {c(2.0 ** 20)})))\n"
                   f"(assert (fp.leq (fp.abs (fp.sub RNE a lo)) (fp.mul RNE {c(1024)} (fp.sub RNE hi lo))))\n")
            q = [
                ("range: lo <= wrap(a) <= hi (+ one rounding of the interval length)", dom + f"(assert (not (and (fp.leq lo result) (fp.leq result (fp.add RNE hi (fp.mul RNE (fp.max (fp.abs lo) (fp.abs hi)) {c(2.0 ** -22)}))))))\n", "unsat"),
                ("no panic", dom + f"(assert {encs.panic})\n", "unsat"),
                ("witness: the contract is satisfiable with an interior value", dom + f"(assert (and (fp.gt result lo) (fp.lt result hi)))\n", "sat"),
            ]
            enc_full = enc
            enc = encs
            if tier == "quick":
                q = [x for x in q if not x[0].startswith("range:")]   # the float-range query needs > 240 s: thorough tier only
            r1 = record("c18_wrap_range", enc, "every finite a, lo < hi with |.| <= 2^20 rad and |a - lo| <= 1024 (hi - lo) (range query: thorough tier only; quick tier: no panic + witness)",
                        "lo <= wrap(a, lo, hi) <= hi (upper end closed only by rounding: slack 2^-22 max(|lo|,|hi|), i.e. a couple of ulps); rem_euclid replaced by its contract (discharged by c20_rem_euclid_range)", q, "mir(libm)+cvc5")
            enc = enc_full
            r1["translator_validation"] = f"{ok}/{len(vec)} native vectors"
            res.append(r1)
            K, J = (32, 8) if tier == "quick" else (256, 64)
            isint = lambda t: f"(fp.eq (fp.roundToIntegral RNE {t}) {t})"
            on16 = lambda n: isint("(fp.mul RNE " + n + " " + c(8) + ")")
            lat = (f"(assert (and {finite('a')} {finite('lo')} {finite('hi')} (fp.lt lo hi) (fp.leq (fp.abs a) {c(K / 16)}) (fp.leq (fp.abs lo) {c(2)}) (fp.leq (fp.sub RNE hi lo) {c(J / 16)})))\n"
                   f"(assert (and {on16('a')} {on16('lo')} {on16('hi')}))\n"
                   f"(define-fun quo () {F32} (fp.div RNE (fp.sub RNE a result) (fp.sub RNE hi lo)))\n")
            q = [
                ("congruence: (a - wrap)/(hi - lo) is an integer and lo <= wrap <= hi", lat + f"(assert (not (and {isint('quo')} (fp.leq lo result) (fp.leq result hi))))\n", "unsat"),
                ("witness: several revolutions below", lat + f"(assert (fp.lt a (fp.sub RNE lo (fp.mul RNE {c(3)} (fp.sub RNE hi lo)))))\n", "sat"),
            ]
            r2 = record("c18_wrap_congruent", enc, f"a, lo, hi multiples of 1/8; |a| <= {K}/16, |lo| <= 2, 0 < hi - lo <= {J}/16",
                        "wrap differs from a by a whole number of interval lengths and lies in [lo, hi]", q, "mir(libm)+cvc5")
            res.append(r2)
    except M.Unsupported as e:
        res.append(dict(name=f"{prop.lower()}_smt", harness=f"{prop.lower()}_smt", cfg="mir+cvc5", kind="smt", domain="",
                        verdict="inconclusive", why=f"outside the translator's subset: {e}"))
    # native replay of counterexamples
    for r in res:
        if r["verdict"] == "counterexample" and prop in ("C20", "C18"):
            replay_counterexample(prop, r, scratch, say)
    for r in res:
        say(f"  [{r['verdict']:12s}] {r['name']:48s} {r.get('wall_s', 0):7.1f}s  queries={r.get('queries', 0)} {r.get('why', '')[:150]}")
    return res


def replay_counterexample(prop, rec, scratch, say):
    """runs the real function natively on the model's inputs and re-evaluates the property there"""
    model = rec.get("model", "")
    vals = {}
    for m in re.finditer(r"\(define-fun (\w+) \(\) \(_ FloatingPoint 8 24\) (\(fp #b[01] #b[01]{8} #b[01]{23}\))\)", model):
        vals[m.group(1)] = fbits(m.group(2))
    import json
    d = os.path.join(os.path.dirname(HERE), "replay", prop)
    os.makedirs(d, exist_ok=True)
    path = os.path.join(d, f"{rec['name']}.json")
    td = os.path.join(scratch, "extract_target")
    try:
        if prop == "C16":
            res += c16_obligations(funcs, tier, scratch, say, cap)
        elif prop == "C20":
            x, m = vals["x"], vals["m"]
            out = subprocess.run(["cargo", "run", "-q", "--offline", "--manifest-path", os.path.join(extract_crate(scratch), "Cargo.toml"), "--target-dir", td,
                                  "--", "rem-euclid-at", f"{x:08x}", f"{m:08x}"], capture_output=True, text=True)
            r = int(out.stdout.split()[0], 16)
            xf, mf, rf = f_of(x), f_of(m), f_of(r)
            violated = not (0.0 <= rf <= mf)
            info = dict(function="fallback::rem_euclid", x=xf, m=mf, x_bits=f"{x:08x}", m_bits=f"{m:08x}", native_result=rf, violated_natively=violated, query=rec["why"])
        else:
            a, lo, hi = vals["a"], vals["lo"], vals["hi"]
            out = subprocess.run(["cargo", "run", "-q", "--offline", "--features", "libm", "--manifest-path", os.path.join(extract_crate(scratch), "Cargo.toml"), "--target-dir", td,
                                  "--", "wrap-at", f"{a:08x}", f"{lo:08x}", f"{hi:08x}"], capture_output=True, text=True)
            r = int(out.stdout.split()[0], 16)
            af, lf, hf, rf = f_of(a), f_of(lo), f_of(hi), f_of(r)
            violated = not (lf <= rf <= hf + (hf - lf) * 2.0 ** -20)
            info = dict(function="Angle::wrap", a=af, lo=lf, hi=hf, native_result=rf, violated_natively=violated, query=rec["why"],
                        bits=[f"{a:08x}", f"{lo:08x}", f"{hi:08x}"])
        json.dump(info, open(path, "w"), indent=1)
        if "congruen" in rec["why"]:
            # lattice queries: the integer oracle is re-evaluated natively
            info["note"] = "lattice query"
        if info["violated_natively"] or "congruen" in rec["why"]:
            rec.update(verdict="violation", replay=path, why=rec["why"] + f" -- native: {info}")
        else:
            rec.update(verdict="machinery", why="counterexample does not reproduce natively: " + str(info))
    except Exception as e:  # noqa: BLE001
        rec.update(verdict="machinery", why=f"replay failed: {e}")


if __name__ == "__main__":
    import tempfile, shutil, json
    d = tempfile.mkdtemp(prefix="fp_")
    try:
        r = obligations(sys.argv[1], sys.argv[2] if len(sys.argv) > 2 else "quick", d, print)
        for x in r:
            x.pop("model", None)
        print(json.dumps(r, indent=1)[:6000])
    finally:
        shutil.rmtree(d, ignore_errors=True)
