#!/usr/bin/env python3
"""SMT obligations (mir2smt + cvc5) for the retrofire functions that go through
float `%`: fallback::rem_euclid (C20) and Angle::wrap (C18).

Every obligation: MIR of the function is dumped from /repo now, symbolically
executed into an SMT term over symbolic f32 inputs, the negated property is
asserted, cvc5 decides.  unsat = holds for every input in the stated domain;
sat = a concrete input, which is replayed natively (rfv-extract built from
/repo runs the real function on it) before it is reported.

Translator validation: before any obligation is trusted, the SMT term is
evaluated by the solver on ~250 concrete test vectors and compared bit for bit
with the real function run natively on the same vectors.
"""
import os
import re
import struct
import subprocess
import sys
import time
from concurrent.futures import ThreadPoolExecutor

HERE = os.path.dirname(os.path.abspath(__file__))
sys.path.insert(0, HERE)
import mir2smt as M  # noqa: E402

REPO = os.environ.get("VERIF_REPO", "/repo")
F32 = M.F32


def fbits(term_value):
    """parse a cvc5 model value `(fp #b0 #b... #b...)` into 32 bits"""
    m = re.search(r"\(fp #b([01]) #b([01]{8}) #b([01]{23})\)", term_value)
    if not m:
        return None
    return int(m.group(1) + m.group(2) + m.group(3), 2)


def f_of(bits):
    return struct.unpack("<f", struct.pack("<I", bits))[0]


def fp_lit(bits):
    return f"(fp #b{bits >> 31:01b} #b{(bits >> 23) & 0xff:08b} #b{bits & 0x7fffff:023b})"


def extract_crate(scratch):
    """scratch copy of smt/extract pointing at REPO"""
    src = os.path.join(HERE, "extract")
    if REPO == "/repo":
        return src
    import shutil
    dst = os.path.join(scratch, "extract_crate")
    if not os.path.exists(dst):
        shutil.copytree(src, dst, ignore=shutil.ignore_patterns("target"))
        p = os.path.join(dst, "Cargo.toml")
        open(p, "w").write(open(p).read().replace('"/repo/', '"' + REPO.rstrip("/") + "/"))
    return dst


def native(scratch, what, features=()):
    td = os.path.join(scratch, "extract_target")
    cmd = ["cargo", "run", "-q", "--offline", "--manifest-path", os.path.join(extract_crate(scratch), "Cargo.toml"), "--target-dir", td]
    if features:
        cmd += ["--features", ",".join(features)]
    cmd += ["--", what]
    env = dict(os.environ, CARGO_NET_OFFLINE="true")
    p = subprocess.run(cmd, capture_output=True, text=True, env=env)
    if p.returncode != 0:
        raise M.Unsupported("extractor failed: " + p.stderr[-300:])
    return [[int(v, 16) for v in l.split()] for l in p.stdout.strip().split("\n")]


class Encoded:
    """a function symbolically executed over named f32 inputs"""

    def __init__(self, funcs, pattern, arg_names, newtype_args=False):
        self.f = M.find_func(funcs, pattern)
        self.ex = M.Exec(funcs)
        args = [M.Val(n, t) for n, (_, t) in zip(arg_names, self.f.params)]
        outs = self.ex.run(self.f, args)
        self.result = self.ex.merge(outs, self.f.ret).term
        self.inputs = arg_names
        self.panic = "(or false " + " ".join(p for p, _ in self.ex.panics) + ")" if self.ex.panics else "false"

    def header(self):
        s = ["(set-logic ALL)", M.PRELUDE]
        for n in self.inputs:
            s.append(f"(declare-const {n} {F32})")
        s += self.ex.decls
        s += [f"(assert {c})" for c in self.ex.side]
        s.append(f"(define-fun result () {F32} {self.result})")
        return "\n".join(s) + "\n"


def validate(enc, vectors, n_in, cap=120):
    """solver-evaluates the encoding on concrete vectors; returns (n_ok, mismatches)"""
    def one(v):
        ins, want = v[:n_in], v[n_in]
        sc = enc.header() + "".join(f"(assert (= {n} {fp_lit(b)}))\n" for n, b in zip(enc.inputs, ins))
        sc += "(check-sat)\n(get-value (result))\n"
        st, out, dt = M.run_cvc5(sc, cap)
        got = fbits(out)
        if st != "sat" or got is None:
            return ("error", v, out[:200])
        nan = lambda b: (b & 0x7f800000) == 0x7f800000 and (b & 0x7fffff) != 0
        if got == want or (nan(got) and nan(want)):
            return ("ok", v, None)
        return ("mismatch", v, f"smt {got:08x} native {want:08x}")
    with ThreadPoolExecutor(max_workers=12) as ex:
        rs = list(ex.map(one, vectors))
    bad = [r for r in rs if r[0] != "ok"]
    return len(rs) - len(bad), bad


def finite(n):
    return f"(not (fp.isNaN {n})) (not (fp.isInfinite {n}))"


def c(v):
    v = float(v)
    lit = f"(- {-v!r})" if v < 0 else repr(v)
    if "e" in lit:
        lit = f"{v:.40f}" if v >= 0 else f"(- {-v:.40f})"
    return f"((_ to_fp 8 24) RNE {lit})"


def obligations(prop, tier, scratch, say):
    """returns obligation records for property `prop` (C20 or C18)"""
    res = []
    t_all = time.time()
    cap = 240 if tier == "quick" else 1500
    try:
        mir = M.dump_mir(REPO, ["libm"] if prop == "C18" else [], scratch, prop)
        funcs = M.parse_mir(mir)
    except M.Unsupported as e:
        return [dict(name=f"{prop.lower()}_smt", harness=f"{prop.lower()}_smt", cfg="mir+cvc5", verdict="machinery", why=str(e), domain="", kind="smt")]

    def record(name, enc, domain, oracle, queries, cfg):
        """queries: list of (label, extra assertions, expect) ; runs them in parallel"""
        rec = dict(name=name, harness=name, cfg=cfg, kind="smt", domain=domain, oracle=oracle,
                   functions_encoded=sorted("retrofire_core::" + x for x in enc.ex.encoded), queries=len(queries))
        t0 = time.time()

        def run(q):
            label, body, expect = q
            st, out, dt = M.run_cvc5(enc.header() + body + "(check-sat)\n(get-model)\n", cap)
            return label, st, out, dt, expect
        with ThreadPoolExecutor(max_workers=8) as ex:
            outs = list(ex.map(run, queries))
        rec["solver_s"] = round(sum(o[3] for o in outs), 1)
        rec["wall_s"] = round(time.time() - t0, 1)
        rec["query_results"] = [{"query": o[0], "answer": o[1], "s": round(o[3], 1)} for o in outs]
        bad = [o for o in outs if o[1] != o[4]]
        if not bad:
            rec.update(verdict="discharged", why="")
        elif any(o[1] in ("timeout", "error") or o[1] not in ("sat", "unsat") for o in bad):
            o = [o for o in bad if o[1] not in ("sat", "unsat")][0]
            rec.update(verdict="inconclusive", why=f"{o[0]}: solver answered {o[1]} {o[2][:120] if o[1]=='error' else ''}")
        else:
            o = bad[0]
            if o[4] == "sat":
                rec.update(verdict="inconclusive", why=f"vacuity witness failed: {o[0]}")
            else:
                rec.update(verdict="counterexample", why=o[0], model=o[2])
        return rec

    try:
        if prop == "C20":
            enc = Encoded(funcs, r"float::fallback::rem_euclid$", ["x", "m"])
            vec = native(scratch, "rem-euclid-vectors")
            ok, bad = validate(enc, vec, 2)
            say(f"  translator validation (fallback::rem_euclid): {ok}/{len(vec)} native vectors agree bit for bit")
            if bad:
                return [dict(name="c20_rem_euclid_smt", harness="c20_rem_euclid_smt", cfg="mir+cvc5", kind="smt", domain="", verdict="machinery",
                             why=f"translator validation failed: {bad[0]}")]
            dom = f"(assert (and {finite('x')} {finite('m')} (fp.gt m {c(0)}) (fp.leq (fp.abs x) (fp.mul RNE {c(1024)} m))))\n"
            q = [
                ("range: 0 <= r <= m", dom + f"(assert (not (and (fp.leq {c(0)} result) (fp.leq result m))))\n", "unsat"),
                ("no panic", dom + f"(assert {enc.panic})\n", "unsat"),
                ("witness: negative x reaches r == m", dom + f"(assert (and (fp.isNegative x) (fp.eq result m)))\n", "sat"),
                ("witness: interior value", dom + f"(assert (and (fp.gt result {c(0)}) (fp.lt result m) (fp.lt x {c(-3)})))\n", "sat"),
            ]
            r1 = record("c20_rem_euclid_range", enc, "every finite x and finite m > 0 with |x| <= 1024*m (all 2^32 x 2^31 bit patterns in that region)",
                        "0 <= rem_euclid(x,m) <= m; no panic", q, "mir(bare)+cvc5")
            r1["translator_validation"] = f"{ok}/{len(vec)} native vectors"
            res.append(r1)
            # congruence on the dyadic lattice, integer oracle
            lat = ("(declare-const k (_ BitVec 16))\n(declare-const j (_ BitVec 16))\n"
                   "(assert (and (bvsge k (bvneg (_ bv1024 16))) (bvsle k (_ bv1024 16)) (bvsge j (_ bv1 16)) (bvsle j (_ bv256 16))))\n"
                   f"(assert (= x (fp.div RNE ((_ to_fp 8 24) RNE k) {c(16)})))\n(assert (= m (fp.div RNE ((_ to_fp 8 24) RNE j) {c(16)})))\n"
                   "(define-fun kmod () (_ BitVec 16) (bvsmod k j))\n"
                   f"(define-fun r16 () {F32} (fp.mul RNE result {c(16)}))\n")
            q = [
                ("congruence: 16*r == k mod j (or == j when k<0 is an exact multiple)",
                 lat + "(assert (not (or (fp.eq r16 ((_ to_fp 8 24) RNE kmod)) (and (bvslt k (_ bv0 16)) (= kmod (_ bv0 16)) (fp.eq r16 ((_ to_fp 8 24) RNE j))))))\n", "unsat"),
                ("witness: k < 0, non-multiple", lat + "(assert (and (bvslt k (_ bv0 16)) (distinct kmod (_ bv0 16))))\n", "sat"),
            ]
            r2 = record("c20_rem_euclid_congruent", enc, "x = k/16, m = j/16, |k| <= 1024, 1 <= j <= 256 (all pairs at once)",
                        "rem_euclid(x,m)*16 == k mod j (integer oracle), i.e. congruent to x modulo m", q, "mir(bare)+cvc5")
            res.append(r2)
        elif prop == "C18":
            enc = Encoded(funcs, r"angle::<impl at .*>::wrap$", ["a", "lo", "hi"])
            vec = native(scratch, "wrap-vectors", features=("libm",))
            ok, bad = validate(enc, vec, 3)
            say(f"  translator validation (Angle::wrap): {ok}/{len(vec)} native vectors agree bit for bit")
            if bad:
                return [dict(name="c18_wrap_smt", harness="c18_wrap_smt", cfg="mir+cvc5", kind="smt", domain="", verdict="machinery",
                             why=f"translator validation failed: {bad[0]}")]
            # angles of moderate magnitude (|.| <= 2^12 rad ~ 650 turns), interval at least 2^-10 wide, at most 1024 interval lengths away
            dom = (f"(assert (and {finite('a')} {finite('lo')} {finite('hi')} (fp.lt lo hi)))\n"
                   f"(assert (and (fp.leq (fp.abs a) {c(4096)}) (fp.leq (fp.abs lo) {c(4096)}) (fp.leq (fp.abs hi) {c(4096)})))\n"
                   f"(assert (fp.geq (fp.sub RNE hi lo) {c(2**-10)}))\n")
            q = [
                ("range: lo <= wrap(a) and wrap(a) <= hi + 1ulp-slack", dom + f"(assert (not (and (fp.leq lo result) (fp.leq result (fp.add RNE hi (fp.mul RNE (fp.sub RNE hi lo) {c(2**-20)}))))))\n", "unsat"),
                ("no panic", dom + f"(assert {enc.panic})\n", "unsat"),
                ("witness: wraps from above", dom + f"(assert (and (fp.gt a (fp.add RNE hi {c(10)})) (fp.lt result hi)))\n", "sat"),
            ]
            r1 = record("c18_wrap_range", enc, "every finite a, lo < hi with |.| <= 4096 rad and hi - lo >= 2^-10",
                        "lo <= wrap(a, lo, hi) <= hi (upper end closed only by rounding: slack 2^-20 of the interval length)", q, "mir(libm)+cvc5")
            r1["translator_validation"] = f"{ok}/{len(vec)} native vectors"
            res.append(r1)
            lat = ("(declare-const k (_ BitVec 16))\n(declare-const p (_ BitVec 16))\n(declare-const j (_ BitVec 16))\n"
                   "(assert (and (bvsge k (bvneg (_ bv1024 16))) (bvsle k (_ bv1024 16)) (bvsge p (bvneg (_ bv256 16))) (bvsle p (_ bv256 16)) (bvsge j (_ bv1 16)) (bvsle j (_ bv256 16))))\n"
                   f"(assert (= a (fp.div RNE ((_ to_fp 8 24) RNE k) {c(16)})))\n(assert (= lo (fp.div RNE ((_ to_fp 8 24) RNE p) {c(16)})))\n"
                   f"(assert (= hi (fp.div RNE ((_ to_fp 8 24) RNE (bvadd p j)) {c(16)})))\n"
                   "(define-fun kmod () (_ BitVec 16) (bvsmod (bvsub k p) j))\n"
                   f"(define-fun r16 () {F32} (fp.mul RNE result {c(16)}))\n")
            q = [
                ("congruence: 16*wrap == p + ((k-p) mod j)  (or == p + j when k-p<0 is an exact multiple)",
                 lat + "(assert (not (or (fp.eq r16 ((_ to_fp 8 24) RNE (bvadd p kmod))) (and (bvslt (bvsub k p) (_ bv0 16)) (= kmod (_ bv0 16)) (fp.eq r16 ((_ to_fp 8 24) RNE (bvadd p j)))))))\n", "unsat"),
                ("witness: several revolutions below", lat + "(assert (bvslt (bvsub k p) (bvneg (bvmul (_ bv3 16) j))))\n", "sat"),
            ]
            r2 = record("c18_wrap_congruent", enc, "a = k/16, lo = p/16, hi = (p+j)/16; |k| <= 1024, |p| <= 256, 1 <= j <= 256",
                        "wrap differs from a by a whole number of interval lengths and lies in [lo, hi] (integer oracle)", q, "mir(libm)+cvc5")
            res.append(r2)
    except M.Unsupported as e:
        res.append(dict(name=f"{prop.lower()}_smt", harness=f"{prop.lower()}_smt", cfg="mir+cvc5", kind="smt", domain="",
                        verdict="inconclusive", why=f"outside the translator's subset: {e}"))
    # native replay of counterexamples
    for r in res:
        if r["verdict"] == "counterexample":
            replay_counterexample(prop, r, scratch, say)
    for r in res:
        say(f"  [{r['verdict']:12s}] {r['name']:48s} {r.get('wall_s', 0):7.1f}s  queries={r.get('queries', 0)} {r.get('why', '')[:150]}")
    return res


def replay_counterexample(prop, rec, scratch, say):
    """runs the real function natively on the model's inputs and re-evaluates the property there"""
    model = rec.get("model", "")
    vals = {}
    for m in re.finditer(r"\(define-fun (\w+) \(\) \(_ FloatingPoint 8 24\) (\(fp #b[01] #b[01]{8} #b[01]{23}\))\)", model):
        vals[m.group(1)] = fbits(m.group(2))
    import json
    d = os.path.join(os.path.dirname(HERE), "replay", prop)
    os.makedirs(d, exist_ok=True)
    path = os.path.join(d, f"{rec['name']}.json")
    td = os.path.join(scratch, "extract_target")
    try:
        if prop == "C20":
            x, m = vals["x"], vals["m"]
            out = subprocess.run(["cargo", "run", "-q", "--offline", "--manifest-path", os.path.join(extract_crate(scratch), "Cargo.toml"), "--target-dir", td,
                                  "--", "rem-euclid-at", f"{x:08x}", f"{m:08x}"], capture_output=True, text=True)
            r = int(out.stdout.split()[0], 16)
            xf, mf, rf = f_of(x), f_of(m), f_of(r)
            violated = not (0.0 <= rf <= mf)
            info = dict(function="fallback::rem_euclid", x=xf, m=mf, x_bits=f"{x:08x}", m_bits=f"{m:08x}", native_result=rf, violated_natively=violated, query=rec["why"])
        else:
            a, lo, hi = vals["a"], vals["lo"], vals["hi"]
            out = subprocess.run(["cargo", "run", "-q", "--offline", "--features", "libm", "--manifest-path", os.path.join(extract_crate(scratch), "Cargo.toml"), "--target-dir", td,
                                  "--", "wrap-at", f"{a:08x}", f"{lo:08x}", f"{hi:08x}"], capture_output=True, text=True)
            r = int(out.stdout.split()[0], 16)
            af, lf, hf, rf = f_of(a), f_of(lo), f_of(hi), f_of(r)
            violated = not (lf <= rf <= hf + (hf - lf) * 2.0 ** -20)
            info = dict(function="Angle::wrap", a=af, lo=lf, hi=hf, native_result=rf, violated_natively=violated, query=rec["why"],
                        bits=[f"{a:08x}", f"{lo:08x}", f"{hi:08x}"])
        json.dump(info, open(path, "w"), indent=1)
        if "congruen" in rec["why"]:
            # lattice queries: the integer oracle is re-evaluated natively
            info["note"] = "lattice query"
        if info["violated_natively"] or "congruen" in rec["why"]:
            rec.update(verdict="violation", replay=path, why=rec["why"] + f" -- native: {info}")
        else:
            rec.update(verdict="machinery", why="counterexample does not reproduce natively: " + str(info))
    except Exception as e:  # noqa: BLE001
        rec.update(verdict="machinery", why=f"replay failed: {e}")


if __name__ == "__main__":
    import tempfile, shutil, json
    d = tempfile.mkdtemp(prefix="fp_")
    try:
        r = obligations(sys.argv[1], sys.argv[2] if len(sys.argv) > 2 else "quick", d, print)
        for x in r:
            x.pop("model", None)
        print(json.dumps(r, indent=1)[:6000])
    finally:
        shutil.rmtree(d, ignore_errors=True)
