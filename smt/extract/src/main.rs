use re::math::rand::Xorshift64;

fn main() {
    let what = std::env::args().nth(1).unwrap_or_default();
    match what.as_str() {
        // images of the 64 basis states under the real step function
        "xorshift-basis" => {
            for i in 0..64 {
                let mut g = Xorshift64(1u64 << i);
                println!("{:016x}", g.next_bits());
            }
        }
        // a few (state, next) pairs to validate the matrix representation
        "xorshift-samples" => {
            let mut s: u64 = 0x9E3779B97F4A7C15;
            for _ in 0..32 {
                let mut g = Xorshift64(s);
                let n = g.next_bits();
                println!("{:016x} {:016x}", s, n);
                s = s.wrapping_mul(6364136223846793005).wrapping_add(1442695040888963407);
            }
        }
        // test vectors for validating the MIR->SMT translation: bits(x) bits(m) bits(result)
        "rem-euclid-vectors" => {
            for (x, m) in float_vectors() {
                let r = re::math::float::fallback::rem_euclid(x, m);
                println!("{:08x} {:08x} {:08x}", x.to_bits(), m.to_bits(), r.to_bits());
            }
        }
        // the real function at one input (native replay of SMT counterexamples)
        "rem-euclid-at" => {
            let a: Vec<u32> = std::env::args().skip(2).map(|s| u32::from_str_radix(&s, 16).unwrap()).collect();
            let r = re::math::float::fallback::rem_euclid(f32::from_bits(a[0]), f32::from_bits(a[1]));
            println!("{:08x}", r.to_bits());
        }
        #[cfg(feature = "libm")]
        "wrap-at" => {
            use re::math::angle::rads;
            let a: Vec<u32> = std::env::args().skip(2).map(|s| u32::from_str_radix(&s, 16).unwrap()).collect();
            let r = rads(f32::from_bits(a[0])).wrap(rads(f32::from_bits(a[1])), rads(f32::from_bits(a[2]))).to_rads();
            println!("{:08x}", r.to_bits());
        }
        // float colour conversions: bits of 3 inputs, bits of 3 outputs
        "hsl-to-rgb-vectors" | "rgb-to-hsl-vectors" => {
            use re::math::color::{hsl, rgb};
            let g = [0.0f32, 0.1, 0.25, 0.33333334, 0.5, 0.6, 0.75, 0.9, 1.0];
            for (i, a) in g.iter().enumerate() {
                for (j, b) in g.iter().enumerate() {
                    for (k, c) in g.iter().enumerate() {
                        if (i + 2 * j + 3 * k) % 3 != 0 { continue; }
                        let o = if what == "hsl-to-rgb-vectors" {
                            match std::panic::catch_unwind(|| hsl(*a, *b, *c).to_rgb().0) { Ok(v) => v, Err(_) => continue }
                        } else {
                            rgb(*a, *b, *c).to_hsl().0
                        };
                        println!("{:08x} {:08x} {:08x} {:08x} {:08x} {:08x}", a.to_bits(), b.to_bits(), c.to_bits(), o[0].to_bits(), o[1].to_bits(), o[2].to_bits());
                    }
                }
            }
        }
        "hsl-to-rgb-at" | "rgb-to-hsl-at" => {
            use re::math::color::{hsl, rgb};
            let a: Vec<f32> = std::env::args().skip(2).map(|s| f32::from_bits(u32::from_str_radix(&s, 16).unwrap())).collect();
            let r = std::panic::catch_unwind(|| if what == "hsl-to-rgb-at" { hsl(a[0], a[1], a[2]).to_rgb().0 } else { rgb(a[0], a[1], a[2]).to_hsl().0 });
            match r {
                Ok(o) => println!("{:08x} {:08x} {:08x}", o[0].to_bits(), o[1].to_bits(), o[2].to_bits()),
                Err(_) => println!("PANIC"),
            }
        }
        "rgb-roundtrip-at" => {
            use re::math::color::rgb;
            let a: Vec<f32> = std::env::args().skip(2).map(|s| f32::from_bits(u32::from_str_radix(&s, 16).unwrap())).collect();
            let r = std::panic::catch_unwind(|| rgb(a[0], a[1], a[2]).to_hsl().to_rgb().0);
            match r {
                Ok(o) => println!("{:08x} {:08x} {:08x}", o[0].to_bits(), o[1].to_bits(), o[2].to_bits()),
                Err(_) => println!("PANIC"),
            }
        }
        "floor-vectors" => {
            for (x, _) in float_vectors() {
                let r = re::math::float::fallback::floor(x);
                println!("{:08x} {:08x}", x.to_bits(), r.to_bits());
            }
        }
        #[cfg(feature = "libm")]
        "wrap-vectors" => {
            use re::math::angle::rads;
            for (x, m) in float_vectors() {
                let lo = -0.75 * m;
                let r = rads(x).wrap(rads(lo), rads(lo + m)).to_rads();
                println!("{:08x} {:08x} {:08x} {:08x}", x.to_bits(), lo.to_bits(), (lo + m).to_bits(), r.to_bits());
            }
        }
        _ => {
            eprintln!("usage: rfv-extract xorshift-basis|xorshift-samples|rem-euclid-vectors|floor-vectors|wrap-vectors");
            std::process::exit(2);
        }
    }
}

fn float_vectors() -> Vec<(f32, f32)> {
    let xs = [0.0f32, -0.0, 1.0, -1.0, 5.5, -5.5, 7.0, -7.0, 0.1, -0.1, 123456.78, -123456.78, 1e-30, -1e-30, 3.1415927, -3.1415927,
              6.2831855, -6.2831855, 1e7, -1e7, 0.49999997, -0.5, 63.9375, -63.9375, 1.1754944e-38, -1.1754944e-38, 1e-45, 40.4375, -40.4375, 2.5, -2.5, 1000.001];
    let ms = [1.0f32, 2.0, 6.0, 6.2831855, 0.75, 13.5, 372.5, 1e-3];
    let mut v = Vec::new();
    for x in xs { for m in ms { v.push((x, m)); } }
    v
}
