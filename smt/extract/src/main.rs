use re::math::rand::Xorshift64;

fn main() {
    let what = std::env::args().nth(1).unwrap_or_default();
    match what.as_str() {
        // images of the 64 basis states under the real step function
        "xorshift-basis" => {
            for i in 0..64 {
                let mut g = Xorshift64(1u64 << i);
                println!("{:016x}", g.next_bits());
            }
        }
        // a few (state, next) pairs to validate the matrix representation
        "xorshift-samples" => {
            let mut s: u64 = 0x9E3779B97F4A7C15;
            for _ in 0..32 {
                let mut g = Xorshift64(s);
                let n = g.next_bits();
                println!("{:016x} {:016x}", s, n);
                s = s.wrapping_mul(6364136223846793005).wrapping_add(1442695040888963407);
            }
        }
        _ => {
            eprintln!("usage: rfv-extract xorshift-basis|xorshift-samples");
            std::process::exit(2);
        }
    }
}
