#!/bin/bash
# seedimport.sh <prop> <n> : import /tmp/seed2_<prop>/seed/{patch.diff,demo.rs,meta.json} as seeded/<prop>-s<n>, verifying natively first
p=$1; n=$2; sd=${SEEDROOT:-/tmp/seed2}_$p/seed
mkdir -p /tmp/seed2_imp_$p; cp $sd/patch.diff /tmp/seed2_imp_$p/patch$n.diff; cp $sd/demo.rs /tmp/seed2_imp_$p/demo$n.rs
/verif/seedtest.sh /tmp/seed2_imp_$p $n $p 2>&1 | grep -v "^worktree" | sed 's/test result: //; s/; 0 ignored.*//'
d=/verif/seeded/$p-s$n; mkdir -p $d; cp $sd/patch.diff $d/patch.diff; cp $sd/demo.rs $d/demo.rs
python3 - "$sd/meta.json" "$d/meta.json" "$p" <<'P'
import json,sys
try: m=json.load(open(sys.argv[1]))
except Exception: m={}
meta={"property":sys.argv[3],"breaks":m.get("summary"),"needs_to_manifest":m.get("needs_to_manifest"),"files_changed":m.get("files_changed"),
      "demo_command":m.get("demo_command"),"origin":"fresh sub-agent (second round) given only the property text, a scratch worktree of /repo and a list of already-used ideas to avoid",
      "confirmed_by_me":"seedtest.sh: demo passes on the clean tree, fails with the patch; the unedited workspace test suite passes with the patch","checks_run":[]}
json.dump(meta,open(sys.argv[2],"w"),indent=1)
P
git -C /repo worktree remove --force /tmp/sw_${p}_$n 2>/dev/null
