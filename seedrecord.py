#!/usr/bin/env python3
"""records results of seedcheck.sh runs (/tmp/seedcheck_*.out, /tmp/sc_<id>.out) into seeded/<id>/meta.json"""
import json, re, os, glob, sys
for f in sorted(glob.glob('/tmp/seedcheck_*.out'), key=os.path.getmtime):
    txt = open(f).read()
    for m in re.finditer(r"^(C\d+-s\d) rc=(\d+) wall=(\d+)s (\d+) violation", txt, re.M):
        sid, rc, wall, n = m.groups()
        try:
            out = open(f'/tmp/sc_{sid}.out').read()
        except FileNotFoundError:
            continue
        hs = sorted(set(re.findall(r"^  (?:harness|obligation)=(\S+?)(?:@|:)", out, re.M)))
        p = f'/verif/seeded/{sid}/meta.json'
        if not os.path.exists(p):
            continue
        d = json.load(open(p))
        inc = re.findall(r"^INCONCLUSIVE (?:harness|obligation)=(\S+)", out, re.M)
        d['checks_run'] = [{"command": f"VERIF_REPO=<scratch worktree of /repo HEAD with patch.diff applied> ./check {sid.split('-')[0]} --tier quick",
                            "exit": int(rc), "wall_s": int(wall),
                            "result": ("DETECTED: VIOLATION reported by " + ", ".join(hs)) if rc == "1" else f"MISSED (exit {rc}; inconclusive: {', '.join(inc) or 'none'})"}]
        json.dump(d, open(p, 'w'), indent=1)
        print(sid, d['checks_run'][0]['result'][:140])
