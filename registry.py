"""Obligation registry: one entry per Kani proof harness (kani/src/<mod>.rs).

Fields
  name     harness function name            mod   module path inside crate rfv
  prop     property id                      cfgs  retrofire-core feature sets it runs under
  tiers    ("quick","thorough") default     cap   wall cap in seconds (default 480 / 2700)
  est      rough cost in seconds on the pinned tree (scheduling + sizing: must be <= 50% of cap)
  kind     hold | witness (expected to fail: known finding) | should_panic
  domain   the symbolic input domain = the bound of the claim
  oracle   what is asserted
  unwind   the #[kani::unwind] bound in the source (documentation)
  assumes  stubs / assumptions that are part of the claim
"""

HARNESSES = []
NOT_APPLICABLE = {}
EXTERNAL = {}
ASSUMPTIONS = {
    "*": [
        "Kani 0.68 / CBMC 6.11 translate the MIR of /repo's current working tree faithfully (bit-precise integers, IEEE-754 binary32 via CBMC's float encoding)",
        "cargo kani builds with debug assertions and overflow checks on (dev profile); --no-overflow-checks only disables CBMC's own NaN / float-overflow instrumentation, Rust panics (overflow, bounds, unwrap, debug_assert, unreachable) stay checked",
        "unwinding assertions are on: every loop bound is checked, not assumed",
        "counterexamples are believed only after native replay (Kani concrete playback) against the real crate in dev and release-like profiles",
    ],
}
BOUNDS = {}
OUTSIDE = {}


def H(prop, mod, name, cfgs, domain, oracle="", **kw):
    d = dict(prop=prop, mod=mod, name=name, cfgs=list(cfgs), domain=domain, oracle=oracle)
    d.update(kw)
    HARNESSES.append(d)
    return d


ALL4 = ("bare", "libm", "mm", "std")
FP3 = ("libm", "mm", "std")


# ---------------------------------------------------------------- C20
P = "C20"
BOUNDS[P] = "floor/abs: every f32 bit pattern (floor split at 2^31); rem_euclid: dyadic lattice x=k/16, m=j/16, |k|<=1024, 1<=j<=256; sqrt / recip_sqrt: every positive normal x in [2^-60, 2^60], one-float tolerance query"
OUTSIDE[P] = [
    "accuracy of sin/cos/tan/asin/acos/atan2/powf/exp of libm and micromath against std: no reference semantics for transcendentals exists inside the solver (Kani models the std intrinsics as unconstrained)",
    "rem_euclid off the dyadic lattice: CBMC's model of float % is x - trunc(x/m)*m with rounding and is demonstrably wrong for some operands (subnormal x), so only the lattice validated by c20_fmod_model_table is claimed",
    "micromath floor for |x| >= 2^31 (third-party code going through i32; only totality is claimed there)",
    "recip_sqrt under libm/std (powf)",
]
H(P, "c20", "c20_floor", ALL4, "every f32 with |x| < 2^31", "r integral, r <= x < r+1 (r == x beyond 2^23)", est=5)
H(P, "c20", "c20_floor_huge", ("bare", "libm", "std"), "every f32 bit pattern with not(|x| < 2^31): huge, +-inf, NaN", "floor(x) == x, no panic", est=5)
H(P, "c20", "c20_floor_total", ("mm",), "every f32 bit pattern", "no panic", est=5)
H(P, "c20", "c20_abs", ALL4, "every f32 bit pattern", "bits(abs x) == bits(x) & 0x7fffffff", est=2)
H(P, "c20", "c20_sqrt", ("mm", "std"), "every f32 x in [1, 4)", "y>=0, |y*y-x| <= tol*x (2 ulp std, 4e-3 mm)", est=120,
  assumes=["cfg std: Kani's sqrtf32 intrinsic model (CBMC built-in, IEEE correctly rounded)"])
H(P, "c20", "c20_recip_sqrt", ("bare", "mm"), "every f32 x in [1, 4)", "|y*y*x - 1| <= 5e-3", est=120)

# ---------------------------------------------------------------- manifest texts
ENGINE = {}
TECHNIQUE = {}
LEVEL_TEXT = {}
LEVEL_NOTE = {}
HOOK_COMMITS = []
EXTRA_ENGINES = []
DEFAULT_NOTE = ("Trusted: Kani's MIR->goto translation, CBMC's bit-precise integer and IEEE-754 float encoding, CaDiCaL; "
                "harness oracles and stated input domains (evidence/<id>.json lists every harness with its domain, assumptions and what lies outside the bound). "
                "Bounded: holds for all inputs inside each harness's domain, says nothing outside it.")
LEVEL_TEXT["C20"] = ("Bounded model checking of the real helper functions in all four feature configurations: floor and abs decided for every f32 bit pattern "
                     "(floor against its defining property r integral, r<=x<r+1), sqrt/recip_sqrt as one-float tolerance queries over two full binades. "
                     "The transcendental functions are outside (no solver semantics), rem_euclid is decided by the SMT engine because CBMC's float % model is unusable.")

NOT_APPLICABLE.update({
    "C01": "composition of the whole pipeline: render() cannot be brought through symbolic execution in any form tried (symbolic lattice geometry, concrete geometry with symbolic attributes, unclipped lattice triangle into a null target: all > 25 min; the clipper alone exhausts 40 GB); the stage facts are claimed where decidable (C02, C04-C08)",
    "C03": "every clipper entry point pushes symbolic ClipVerts through a growing Vec: one plane x one edge already exhausts 40 GB in the SAT back end, on float ranges and on integer lattices alike; no add-only hook changes that",
    "C10": "the observable is rustc's accept/reject verdict on a corpus of programs; there is no function to execute symbolically and no input to make symbolic, so no solver verdict over the real code exists",
    "C14": "parse_obj is String::extend + split_ascii_whitespace + str::split + str::parse; with three symbolic digits in one face line symbolic execution did not finish in 20 min / 9 GB (memchr alignment cases, String growth, dec2flt)",
    "C15": "per configuration the mesh is a constant (sin/cos of count-derived angles, index arithmetic on counts); symbolic counts make loop bounds and Vec lengths symbolic (the encoding that fails for the clipper), concrete counts leave nothing for a solver to range over",
})

# ---------------------------------------------------------------- C12
P = "C12"
BOUNDS[P] = "coordinates: every pair of f32 bit patterns (NaN, +-inf, subnormals included); texture sizes: {1,2,4,8}^2 (repeat), [1,5]^2 (clamp); owned and borrowed (sub-rectangle of 8x4 at every offset)"
OUTSIDE[P] = ["textures larger than 8x8 (repeat) / 5x5 (clamp)", "texel types other than (u32,u32)", "behaviour of SamplerOnce out of range (unspecified by the docs)"]
LEVEL_TEXT[P] = ("Bounded model checking of the three samplers in all four float configurations over the whole f32 x f32 coordinate domain; the texel read is its own address, "
                 "so the integer oracle (floor in f64, mod / clamp in i64) decides which texel was addressed. Only texture size is bounded.")
H(P, "c12", "c12_repeat_abs", ALL4, "u,v: all f32 bit patterns; dims symbolic in {1,2,4,8}^2; owned Buf2", "no panic; |u|<2^31 => x == floor(u) mod w (same for v)", unwind=66, est=60)
H(P, "c12", "c12_repeat_rel", ALL4, "u,v: all f32; 4x4", "sample(tc) == sample_abs(w*u, h*v)", unwind=18, est=30)
H(P, "c12", "c12_repeat_borrowed", ALL4, "u,v: all f32; sub-rectangle {1,2,4}x{1,2} of an 8x4 buffer at every offset", "address inside the sub-rectangle and == floor mod size relative to it", unwind=34, est=60)
H(P, "c12", "c12_clamp_abs", FP3, "u,v: all f32; dims symbolic in [1,5]^2", "no panic; texel == floor(clamp(u,0,w-1)); relative == absolute scaled", unwind=27, est=60)
H(P, "c12", "c12_once_agrees", ALL4, "dims {1,2,4}^2, 0<=u<w, 0<=v<h (all floats in range)", "SamplerOnce == repeat == clamp == floor", unwind=18, est=30)
H(P, "c12", "c12_once_rel", ALL4, "4x2, all (u,v) whose scaled value is in range", "sample == sample_abs scaled", unwind=18, est=30)

# ---------------------------------------------------------------- C11
P = "C11"
BOUNDS[P] = "root dims <= 3x3 (quick) / 4x4 (thorough, -F deep), arbitrary u8 contents, every sub-rectangle and every sub-rectangle of it (two nesting levels), all five range forms; raw views: dims <= 4x4 (rows/fill: 3x3), stride <= 6 (4), backing length <= 12 incl. surplus"
OUTSIDE[P] = ["dims > 4x4, > 2 nesting levels", "w*h or y*stride near u32::MAX (index arithmetic overflow)", "element types other than u8 / (u32,u32)", "operation *sequences* longer than one: argued, not solved — views hold no mutable metadata, so one arbitrary operation from an arbitrary reachable view on arbitrary contents is the inductive step"]
LEVEL_TEXT[P] = ("Bounded model checking of every public Buf2/Slice2/MutSlice2 operation against a plain 2-D array model, for all buffer dimensions up to the bound, all (nested) sub-rectangles, all contents, "
                 "one operation at a time (inductive step); must-panic obligations use should_panic plus an unreachable cover after the call.")
_b = dict(est=60)
for n, dom, orc in [
    ("c11_slice_forms", "root <= DxD, rect in any of 5x5 range forms with bounds <= 5, accepted rects", "geometry == model; reads == model; outside => None"),
    ("c11_read_nested", "root <= DxD, two nested sub-rectangles, symbolic point", "get/[[x,y]]/[pt]/[y][x] == model; OOB => None; is_contiguous formula"),
    ("c11_rows_nested", "raw root <= 3x3, sub-rectangle (quick) / two nested (thorough)", "rows(): height() rows of width() == model (w>0)"),
    ("c11_iter_small", "raw root <= 3x2, every sub-rectangle", "iter(): w*h items row-major == model"),
    ("c11_buf_ctor", "dims <= DxD", "new_from/new/new_with contents, dims, stride, rows()"),
    ("c11_raw_reads", "Slice2::new dims<=4x4, stride<=6, len<=12, every view that fits (surplus allowed)", "reads == model; outside => None"),
    ("c11_raw_new_accepts", "same, w,h>=1 and fits", "accepted"),
    ("c11_raw_rows", "Slice2::new dims<=3x3, stride<=4, len<=12, surplus allowed", "rows(): height() rows == model"),
    ("c11_raw_fill", "MutSlice2::new dims<=3x3, stride<=4, len<=12, fill / fill_with", "exactly the addressed cells change"),
    ("c11_write_point", "nested slice_mut, [[x,y]] = v", "root == model"),
    ("c11_write_row_index", "nested slice_mut, [y][x] = v", "root == model"),
    ("c11_write_get_mut", "nested slice_mut, get_mut any point", "Some iff in bounds; root == model"),
    ("c11_write_fill", "nested slice_mut, fill", "root == model"),
    ("c11_write_fill_with", "nested slice_mut, fill_with(x,y)", "root == model, f sees view coordinates"),
    ("c11_write_rows_mut", "nested slice_mut, rows_mut", "height() rows of width(); root == model"),
    ("c11_write_copy_from", "nested slice_mut <- strided source view", "root == model"),
]:
    H(P, "c11", n, ("bare",), dom, orc, **_b)
for n, dom, orc in [
    ("c11_iter_nested", "raw root <= 3x3, two nested sub-rectangles", "iter(): w*h items row-major == model"),
    ("c11_write_iter_mut", "raw root <= 3x3, nested slice_mut, iter_mut", "w*h items row-major; root == model"),
]:
    H(P, "c11", n, ("bare",), dom, orc, tiers=("thorough",), est=900)
for n, dom in [
    ("c11_slice_forms_reject", "rect (any form) not inside the view"),
    ("c11_new_from_short", "iterator shorter than w*h"),
    ("c11_raw_new_reject", "dims the data cannot hold"),
    ("c11_oob_point_panics", "[[x,y]] outside a sub-view"),
    ("c11_oob_row_panics", "[y] with any usize y >= height (incl. y >= 2^32)"),
    ("c11_oob_write_panics", "IndexMut outside a mutable sub-view"),
    ("c11_copy_from_mismatch_panics", "copy_from with different dims"),
]:
    H(P, "c11", n, ("bare",), dom, "every such call panics (should_panic + unreachable cover after the call)", kind="should_panic", est=40)

# ---------------------------------------------------------------- C19 (Kani part; the period is decided by z3, see EXTERNAL)
P = "C19"
BOUNDS[P] = "step: all pairs of 64-bit states; distributions: every 64-bit state x every finite f32 range a<b of finite width / every i32 range of positive representable width / every f32 p; rejection samplers: acceptance within 2 iterations"
OUTSIDE[P] = ["rejection samplers needing more than 2 iterations (probability < 5%: (1-pi/4)^2 disk, 23% ball)", "len_sqr <= 1 of the returned disk/ball sample in the quick tier (re-evaluating the acceptance test is a float multiplier equivalence; capped attempt in the thorough tier)", "UnitCircle/UnitSphere length (normalize: sqrt/powf, tolerance over two/three free floats)", "statistical uniformity / independence", "Uniform<f32> with non-finite bounds or width"]
LEVEL_TEXT[P] = ("Bounded model checking over the complete 64-bit state space: the step is shown zero-free, injective and GF(2)-linear for all states, every distribution's range claim is decided for every state "
                 "and every range at once; the full period 2^64-1 is a solver-checked witness chain (z3, cvc5 cross-check) over the matrix of the step extracted from the real code.")
H(P, "c19", "c19_step_bijective", ("bare",), "all pairs of distinct 64-bit states", "images differ; non-zero maps to non-zero", est=3)
H(P, "c19", "c19_step_linear", ("bare",), "all pairs of 64-bit states", "next(a^b) == next(a)^next(b), next(0)==0", est=3)
H(P, "c19", "c19_seed_determinism", ("bare",), "every non-zero seed", "from_seed keeps the seed; two generators agree for 3 steps; outputs non-zero", est=3)
H(P, "c19", "c19_seed_zero_panics", ("bare",), "seed 0", "panics", kind="should_panic", est=2)
H(P, "c19", "c19_uniform_f32_unit", ("bare",), "every state, range 0..1", "start <= v < end", est=3)
H(P, "c19", "c19_uniform_f32_symmetric", ("bare",), "every state, range -1..1", "start <= v < end", est=3)
H(P, "c19", "c19_uniform_f32_any_range", ("bare", "std"), "every state x every finite a<b with finite b-a", "a <= v < b", est=10)
H(P, "c19", "c19_uniform_i32", ("bare",), "every state x every a<b with b-a representable", "a <= v < b", est=30)
H(P, "c19", "c19_bernoulli_extremes", ("bare",), "every state x every f32 p (NaN incl.)", "p<=0 => false, p>=1 => true", est=5)
H(P, "c19", "c19_composites_in_order", ("bare",), "every state; ranges 0..7, -3..5", "array / tuple / Vec2i sample == scalar draws from successive states, same final state", unwind=5, est=30)
H(P, "c19", "c19_composites_f32", ("bare",), "every state; ranges -1..1, 2..5", "Vec2 / Point2 sample == scalar draws in order", unwind=5, est=30)
H(P, "c19", "c19_disk_cut", ("bare",), "every state whose rejection loop accepts within 2 iterations", "sample components in [-1,1), generator advanced", unwind=3, est=60,
  kani_args=["--no-unwinding-checks"], assumes=["the unwinding assertion of the rejection loop is turned into an assumption (acceptance within 2 iterations)"])
H(P, "c19", "c19_ball_cut", ("bare",), "every state whose rejection loop accepts within 2 iterations", "sample components in [-1,1), generator advanced", unwind=3, est=60,
  kani_args=["--no-unwinding-checks"], assumes=["the unwinding assertion of the rejection loop is turned into an assumption (acceptance within 2 iterations)"])
H(P, "c19", "c19_disk_within_2", ("bare",), "every state for which one of the first two candidate points is accepted", "len_sqr <= 1, components in [-1,1); PointsOnUnitDisk equal", unwind=4, est=1200, tiers=("thorough",),
  assumes=["acceptance within two iterations (assumed on the same arithmetic); longer rejection runs are outside the bound"])
H(P, "c19", "c19_ball_within_2", ("bare",), "every state for which one of the first two candidate points is accepted", "len_sqr <= 1; PointsInUnitBall equal", unwind=5, est=1200, tiers=("thorough",),
  assumes=["acceptance within two iterations"])


def _c19_external(tier, scratch, say):
    import importlib.util, os
    spec = importlib.util.spec_from_file_location("c19_period", os.path.join(os.path.dirname(os.path.abspath(__file__)), "smt", "c19_period.py"))
    m = importlib.util.module_from_spec(spec)
    spec.loader.exec_module(m)
    r = m.obligations(tier, scratch, say)
    for x in r:
        say(f"  [{x['verdict']:12s}] {x['name']:48s} {x.get('wall_s', 0):7.1f}s  queries={x.get('queries', 0)} {x.get('why', '')}")
    return r


EXTERNAL["C19"] = _c19_external
TECHNIQUE["C19"] = "bounded model checking (Kani/CBMC) over all 64-bit states for the step and every distribution; full period by an SMT-checked GF(2) witness chain (z3, cvc5 cross-check) over the step matrix extracted from the real code"
EXTRA_ENGINES.append({"name": "smt-chain", "path": "smt/c19_period.py", "serves_properties": ["C19"],
                      "kind_free_text": "z3 4.8.12 (cvc5 1.0 cross-check in the thorough tier) over QF_BV: ~2800 linear-identity queries proving order(M) = 2^64-1 for the xorshift step matrix M extracted natively from /repo"})

# ---------------------------------------------------------------- C16 (integer kernels; float HSL via smt/)
P = "C16"
BOUNDS[P] = "8-bit kernels: all 2^24 RGB / HSL triples; packing: all 2^32 words; float->u8: every f32 incl. NaN/inf; u8 Affine::add: every channel x every i32 delta <= i32::MAX-255"
OUTSIDE[P] = ["to_linear / to_srgb (powf)", "float RGB<->HSL round trip, range and hue-1==hue-0 (float %: CBMC's model is unusable; see smt engine)", "to_hsla/to_rgba agreement with the 3-channel conversions off the 6-step channel lattice"]
LEVEL_TEXT[P] = ("Bounded model checking of the integer colour kernels over their complete input spaces (2^24 triples, 2^32 words, all floats for clamping); "
                 "each is decided by the SAT solver, not enumerated.")
H(P, "c16", "c16_hsl8_to_rgb_total", ("bare",), "all 2^24 8-bit HSL triples", "no panic (debug_assert channel range, unreachable sextant, overflow)", est=60)
H(P, "c16", "c16_rgb8_roundtrip_rmax", ("bare",), "all 8-bit RGB with r the maximum", "RGB->HSL->RGB within 8/255 per channel", est=300, cap=900)
H(P, "c16", "c16_rgb8_roundtrip_gmax", ("bare",), "all 8-bit RGB with g the strict maximum over r", "RGB->HSL->RGB within 8/255 per channel", est=300, cap=900)
H(P, "c16", "c16_rgb8_roundtrip_bmax", ("bare",), "all 8-bit RGB with b the strict maximum", "RGB->HSL->RGB within 8/255 per channel", est=300, cap=900)
H(P, "c16", "c16_grays_and_hue_wrap", ("bare",), "all gray levels, all hues; all (s,l) for hue 0 vs 255", "s==0, l kept, both directions; hue 255 within 8/255 of hue 0", est=60)
H(P, "c16", "c16_alpha_variants", ("bare",), "channels on the lattice {0,51,...,255}^3, every alpha", "to_hsla/to_rgba keep alpha and equal the 3-channel conversion", est=30)
H(P, "c16", "c16_packing", ("bare",), "all 2^32 RGBA words", "byte order of to_rgb_u32/to_rgba_u32/to_argb_u32; to_rgb/to_rgba keep channels, alpha 0xFF", est=5)
H(P, "c16", "c16_float_to_u8_clamps", ("bare", "std"), "every 4 f32 bit patterns", "to_color3/4 == clamp then *255 truncated; NaN -> 0", est=120)
H(P, "c16", "c16_u8_add_saturates", ("bare",), "every u8^3 x every i32^3 delta <= i32::MAX-255", "add saturates to [0,255]; sub exact", est=10)
