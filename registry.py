"""Obligation registry: one entry per Kani proof harness (kani/src/<mod>.rs).

Fields
  name     harness function name            mod   module path inside crate rfv
  prop     property id                      cfgs  retrofire-core feature sets it runs under
  tiers    ("quick","thorough") default     cap   wall cap in seconds (default 480 / 2700)
  est      rough cost in seconds on the pinned tree (scheduling + sizing: must be <= 50% of cap)
  kind     hold | witness (expected to fail: known finding) | should_panic
  domain   the symbolic input domain = the bound of the claim
  oracle   what is asserted
  unwind   the #[kani::unwind] bound in the source (documentation)
  assumes  stubs / assumptions that are part of the claim
"""

HARNESSES = []
NOT_APPLICABLE = {}
EXTERNAL = {}
ASSUMPTIONS = {
    "*": [
        "Kani 0.68 / CBMC 6.11 translate the MIR of /repo's current working tree faithfully (bit-precise integers, IEEE-754 binary32 via CBMC's float encoding)",
        "cargo kani builds with debug assertions and overflow checks on (dev profile); --no-overflow-checks only disables CBMC's own NaN / float-overflow instrumentation, Rust panics (overflow, bounds, unwrap, debug_assert, unreachable) stay checked",
        "unwinding assertions are on: every loop bound is checked, not assumed",
        "counterexamples are believed only after native replay (Kani concrete playback) against the real crate in dev and release-like profiles",
    ],
}
BOUNDS = {}
OUTSIDE = {}


def H(prop, mod, name, cfgs, domain, oracle="", **kw):
    d = dict(prop=prop, mod=mod, name=name, cfgs=list(cfgs), domain=domain, oracle=oracle)
    d.update(kw)
    HARNESSES.append(d)
    return d


ALL4 = ("bare", "libm", "mm", "std")
FP3 = ("libm", "mm", "std")


# ---------------------------------------------------------------- C20
P = "C20"
BOUNDS[P] = "floor/abs: every f32 bit pattern (floor split at 2^31); rem_euclid: dyadic lattice x=k/16, m=j/16, |k|<=1024, 1<=j<=256; sqrt / recip_sqrt: every positive normal x in [2^-60, 2^60], one-float tolerance query"
OUTSIDE[P] = [
    "accuracy of sin/cos/tan/asin/acos/atan2/powf/exp of libm and micromath against std: no reference semantics for transcendentals exists inside the solver (Kani models the std intrinsics as unconstrained)",
    "rem_euclid off the dyadic lattice: CBMC's model of float % is x - trunc(x/m)*m with rounding and is demonstrably wrong for some operands (subnormal x), so only the lattice validated by c20_fmod_model_table is claimed",
    "micromath floor for |x| >= 2^31 (third-party code going through i32; only totality is claimed there)",
    "recip_sqrt under libm/std (powf)",
]
H(P, "c20", "c20_floor", ALL4, "every f32 with |x| < 2^31", "r integral, r <= x < r+1 (r == x beyond 2^23)", est=5)
H(P, "c20", "c20_floor_huge", ("bare", "libm", "std"), "every f32 bit pattern with not(|x| < 2^31): huge, +-inf, NaN", "floor(x) == x, no panic", est=5)
H(P, "c20", "c20_floor_total", ("mm",), "every f32 bit pattern", "no panic", est=5)
H(P, "c20", "c20_abs", ALL4, "every f32 bit pattern", "bits(abs x) == bits(x) & 0x7fffffff", est=2)
H(P, "c02", "c02_round_up_to_half", ALL4, "every f32 in [-0.5, 2^22): pixel rounding in every configuration", "smallest half-integer strictly above x (identical rule in all four configurations)", est=5)
H(P, "c20", "c20_sqrt", ("mm", "std"), "x in [1, 4): quick = 8 leading mantissa bits (512 values, solver-decided); thorough = every float", "y>=0, |y*y-x| <= tol*x (2 ulp std, 4e-3 mm)", est=120,
  assumes=["cfg std: Kani's sqrtf32 intrinsic model (CBMC built-in, IEEE correctly rounded)"])
H(P, "c20", "c20_recip_sqrt", ("bare", "mm"), "x in [1, 4): quick = 8 leading mantissa bits; thorough = every float", "|y*y*x - 1| <= 5e-3", est=120)

# ---------------------------------------------------------------- manifest texts
ENGINE = {}
TECHNIQUE = {}
LEVEL_TEXT = {}
LEVEL_NOTE = {}
HOOK_COMMITS = ["340a6bf", "f7e7843"]  # /repo: cfg(kani) wrappers for is_backface, depth_sort, round_up_to_half (+ check-cfg lint entry); BezierSpline::verif_approximate_to_depth
EXTRA_ENGINES = []
DEFAULT_NOTE = ("Trusted: Kani's MIR->goto translation, CBMC's bit-precise integer and IEEE-754 float encoding, CaDiCaL; "
                "harness oracles and stated input domains (evidence/<id>.json lists every harness with its domain, assumptions and what lies outside the bound). "
                "Bounded: holds for all inputs inside each harness's domain, says nothing outside it.")
LEVEL_TEXT["C20"] = ("Bounded model checking of the real helper functions in all four feature configurations: floor and abs decided for every f32 bit pattern "
                     "(floor against its defining property r integral, r<=x<r+1), sqrt/recip_sqrt as one-float tolerance queries over two full binades. "
                     "The transcendental functions are outside (no solver semantics), rem_euclid is decided by the SMT engine because CBMC's float % model is unusable.")

NOT_APPLICABLE.update({
    "C01": "composition of the whole pipeline: render() cannot be brought through symbolic execution in any form tried (symbolic lattice geometry, concrete geometry with symbolic attributes, unclipped lattice triangle into a null target: all > 25 min; the clipper alone exhausts 40 GB); the stage facts are claimed where decidable (C02, C04-C08)",
    "C03": "every clipper entry point pushes symbolic ClipVerts through a growing Vec: one plane x one edge already exhausts 40 GB in the SAT back end, on float ranges and on integer lattices alike; no add-only hook changes that",
    "C10": "the observable is rustc's accept/reject verdict on a corpus of programs; there is no function to execute symbolically and no input to make symbolic, so no solver verdict over the real code exists",
    "C14": "parse_obj is String::extend + split_ascii_whitespace + str::split + str::parse; with three symbolic digits in one face line symbolic execution did not finish in 20 min / 9 GB (memchr alignment cases, String growth, dec2flt)",
    "C15": "per configuration the mesh is a constant (sin/cos of count-derived angles, index arithmetic on counts); symbolic counts make loop bounds and Vec lengths symbolic (the encoding that fails for the clipper), concrete counts leave nothing for a solver to range over",
})

# ---------------------------------------------------------------- C12
P = "C12"
BOUNDS[P] = "coordinates: every pair of f32 bit patterns (NaN, +-inf, subnormals included); texture sizes: {1,2,4,8}^2 (repeat), [1,5]^2 (clamp); owned and borrowed (sub-rectangle of 8x4 at every offset)"
OUTSIDE[P] = ["textures larger than 8x8 (repeat) / 5x5 (clamp)", "texel types other than (u32,u32)", "behaviour of SamplerOnce out of range (unspecified by the docs)"]
LEVEL_TEXT[P] = ("Bounded model checking of the three samplers in all four float configurations over the whole f32 x f32 coordinate domain; the texel read is its own address, "
                 "so the integer oracle (floor in f64, mod / clamp in i64) decides which texel was addressed. Only texture size is bounded.")
H(P, "c12", "c12_repeat_abs", ALL4, "u,v: all f32 bit patterns; dims symbolic in {1,2,4,8}^2; owned Buf2", "no panic; |u|<2^31 => x == floor(u) mod w (same for v)", unwind=66, est=60)
H(P, "c12", "c12_repeat_rel", ALL4, "u,v: all f32; 4x4", "sample(tc) == sample_abs(w*u, h*v)", unwind=18, est=30)
H(P, "c12", "c12_repeat_borrowed", ALL4, "u,v: all f32; sub-rectangle {1,2,4}x{1,2} of an 8x4 buffer at every offset", "address inside the sub-rectangle and == floor mod size relative to it", unwind=34, est=60)
H(P, "c12", "c12_clamp_abs", FP3, "u,v: all f32; dims symbolic in [1,5]^2", "no panic; texel == floor(clamp(u,0,w-1)); relative == absolute scaled", unwind=27, est=60)
H(P, "c12", "c12_once_agrees", ALL4, "dims {1,2,4}^2, 0<=u<w, 0<=v<h (all floats in range)", "SamplerOnce == repeat == clamp == floor", unwind=18, est=30)
H(P, "c12", "c12_once_rel", ALL4, "4x2, all (u,v) whose scaled value is in range", "sample == sample_abs scaled", unwind=18, est=30)

# ---------------------------------------------------------------- C11
P = "C11"
BOUNDS[P] = "root dims <= 3x3 (quick) / 4x4 (thorough, -F deep), arbitrary u8 contents, every sub-rectangle and every sub-rectangle of it (two nesting levels), all five range forms; raw views: dims <= 4x4 (rows/fill: 3x3), stride <= 6 (4), backing length <= 12 incl. surplus"
OUTSIDE[P] = ["dims > 4x4, > 2 nesting levels", "w*h or y*stride near u32::MAX (index arithmetic overflow)", "element types other than u8 / (u32,u32)", "operation *sequences* longer than one: argued, not solved — views hold no mutable metadata, so one arbitrary operation from an arbitrary reachable view on arbitrary contents is the inductive step"]
LEVEL_TEXT[P] = ("Bounded model checking of every public Buf2/Slice2/MutSlice2 operation against a plain 2-D array model, for all buffer dimensions up to the bound, all (nested) sub-rectangles, all contents, "
                 "one operation at a time (inductive step); must-panic obligations use should_panic plus an unreachable cover after the call.")
_b = dict(est=60)
for n, dom, orc in [
    ("c11_slice_forms", "root <= DxD, rect in any of 5x5 range forms with bounds <= 5, accepted rects", "geometry == model; reads == model; outside => None"),
    ("c11_read_nested", "root <= DxD, two nested sub-rectangles, symbolic point", "get/[[x,y]]/[pt]/[y][x] == model; OOB => None; is_contiguous formula"),
    ("c11_rows_nested", "raw root <= 3x3, sub-rectangle (quick) / two nested (thorough)", "rows(): height() rows of width() == model (w>0)"),
    ("c11_iter_small", "raw root <= 3x2, every sub-rectangle", "iter(): w*h items row-major == model"),
    ("c11_buf_ctor", "dims <= DxD", "new_from/new/new_with contents, dims, stride, rows()"),
    ("c11_raw_reads", "Slice2::new dims<=4x4, stride<=6, len<=12, every view that fits (surplus allowed)", "reads == model; outside => None"),
    ("c11_raw_new_accepts", "same, w,h>=1 and fits", "accepted"),
    ("c11_raw_rows", "Slice2::new dims<=3x3, stride<=4, len<=12, surplus allowed", "rows(): height() rows == model"),
    ("c11_raw_fill", "MutSlice2::new dims<=3x3, stride<=4, len<=12, fill / fill_with", "exactly the addressed cells change"),
    ("c11_write_point", "nested slice_mut, [[x,y]] = v", "root == model"),
    ("c11_write_row_index", "nested slice_mut, [y][x] = v", "root == model"),
    ("c11_write_get_mut", "nested slice_mut, get_mut any point", "Some iff in bounds; root == model"),
    ("c11_write_fill", "nested slice_mut, fill", "root == model"),
    ("c11_write_fill_with", "nested slice_mut, fill_with(x,y)", "root == model, f sees view coordinates"),
    ("c11_write_rows_mut", "nested slice_mut, rows_mut", "height() rows of width(); root == model"),
    ("c11_write_copy_from", "nested slice_mut <- strided source view", "root == model"),
]:
    H(P, "c11", n, ("bare",), dom, orc, **_b)
for n, dom, orc in [
    ("c11_iter_nested", "raw root <= 3x3, two nested sub-rectangles", "iter(): w*h items row-major == model"),
    ("c11_write_iter_mut", "raw root <= 3x3, nested slice_mut, iter_mut", "w*h items row-major; root == model"),
]:
    H(P, "c11", n, ("bare",), dom, orc, tiers=("thorough",), est=900)
for n, dom in [
    ("c11_slice_forms_reject", "rect (any form) not inside the view"),
    ("c11_new_from_short", "iterator shorter than w*h"),
    ("c11_raw_new_reject", "dims the data cannot hold"),
    ("c11_oob_point_panics", "[[x,y]] outside a sub-view"),
    ("c11_oob_row_panics", "[y] with any usize y >= height (incl. y >= 2^32)"),
    ("c11_oob_write_panics", "IndexMut outside a mutable sub-view"),
    ("c11_copy_from_mismatch_panics", "copy_from with different dims"),
]:
    H(P, "c11", n, ("bare",), dom, "every such call panics (should_panic + unreachable cover after the call)", kind="should_panic", est=40)

# ---------------------------------------------------------------- C19 (Kani part; the period is decided by z3, see EXTERNAL)
P = "C19"
BOUNDS[P] = "step: all pairs of 64-bit states; distributions: every 64-bit state x every finite f32 range a<b of finite width / every i32 range of positive representable width / every f32 p; rejection samplers: acceptance within 2 iterations"
OUTSIDE[P] = ["rejection samplers needing more than 2 iterations (probability < 5%: (1-pi/4)^2 disk, 23% ball)", "len_sqr <= 1 of the returned disk/ball sample in the quick tier (re-evaluating the acceptance test is a float multiplier equivalence; capped attempt in the thorough tier)", "UnitCircle/UnitSphere length (normalize: sqrt/powf, tolerance over two/three free floats)", "statistical uniformity / independence", "Uniform<f32> with non-finite bounds or width"]
LEVEL_TEXT[P] = ("Bounded model checking over the complete 64-bit state space: the step is shown zero-free, injective and GF(2)-linear for all states, every distribution's range claim is decided for every state "
                 "and every range at once; the full period 2^64-1 is a solver-checked witness chain (z3, cvc5 cross-check) over the matrix of the step extracted from the real code.")
H(P, "c19", "c19_step_bijective", ("bare",), "all pairs of distinct 64-bit states", "images differ; non-zero maps to non-zero", est=3)
H(P, "c19", "c19_step_linear", ("bare",), "all pairs of 64-bit states", "next(a^b) == next(a)^next(b), next(0)==0", est=3)
H(P, "c19", "c19_seed_determinism", ("bare",), "every non-zero seed", "from_seed keeps the seed; two generators agree for 3 steps; outputs non-zero", est=3)
H(P, "c19", "c19_seed_zero_panics", ("bare",), "seed 0", "panics", kind="should_panic", est=2)
H(P, "c19", "c19_uniform_f32_unit", ("bare",), "every state, range 0..1", "start <= v < end", est=3)
H(P, "c19", "c19_uniform_f32_symmetric", ("bare",), "every state, range -1..1", "start <= v < end", est=3)
H(P, "c19", "c19_uniform_f32_any_range", ("bare", "std"), "every state x every finite a<b with finite b-a", "a <= v < b", est=10)
H(P, "c19", "c19_uniform_i32", ("bare",), "every state x every a<b with b-a representable", "a <= v < b", est=30)
H(P, "c19", "c19_bernoulli_extremes", ("bare",), "every state x every f32 p (NaN incl.)", "p<=0 => false, p>=1 => true", est=5)
H(P, "c19", "c19_composites_in_order", ("bare",), "every state; ranges 0..7, -3..5", "array / tuple / Vec2i sample == scalar draws from successive states, same final state", unwind=5, est=30)
H(P, "c19", "c19_composites_f32", ("bare",), "every state; ranges -1..1, 2..5", "Vec2 / Point2 sample == scalar draws in order", unwind=5, est=30)
H(P, "c19", "c19_disk_cut", ("bare",), "every state whose rejection loop accepts within 2 iterations", "sample components in [-1,1), generator advanced", unwind=3, est=60,
  kani_args=["--no-unwinding-checks"], assumes=["the unwinding assertion of the rejection loop is turned into an assumption (acceptance within 2 iterations)"])
H(P, "c19", "c19_ball_cut", ("bare",), "every state whose rejection loop accepts within 2 iterations", "sample components in [-1,1), generator advanced", unwind=3, est=60,
  kani_args=["--no-unwinding-checks"], assumes=["the unwinding assertion of the rejection loop is turned into an assumption (acceptance within 2 iterations)"])
H(P, "c19", "c19_disk_within_2", ("bare",), "every state for which one of the first two candidate points is accepted", "len_sqr <= 1, components in [-1,1); PointsOnUnitDisk equal", unwind=4, est=1200, tiers=("thorough",),
  assumes=["acceptance within two iterations (assumed on the same arithmetic); longer rejection runs are outside the bound"])
H(P, "c19", "c19_ball_within_2", ("bare",), "every state for which one of the first two candidate points is accepted", "len_sqr <= 1; PointsInUnitBall equal", unwind=5, est=1200, tiers=("thorough",),
  assumes=["acceptance within two iterations"])


def _c19_external(tier, scratch, say):
    import importlib.util, os
    spec = importlib.util.spec_from_file_location("c19_period", os.path.join(os.path.dirname(os.path.abspath(__file__)), "smt", "c19_period.py"))
    m = importlib.util.module_from_spec(spec)
    spec.loader.exec_module(m)
    r = m.obligations(tier, scratch, say)
    for x in r:
        say(f"  [{x['verdict']:12s}] {x['name']:48s} {x.get('wall_s', 0):7.1f}s  queries={x.get('queries', 0)} {x.get('why', '')}")
    return r


EXTERNAL["C19"] = _c19_external
TECHNIQUE["C19"] = "bounded model checking (Kani/CBMC) over all 64-bit states for the step and every distribution; full period by an SMT-checked GF(2) witness chain (z3, cvc5 cross-check) over the step matrix extracted from the real code"
EXTRA_ENGINES.append({"name": "smt-chain", "path": "smt/c19_period.py", "serves_properties": ["C19"],
                      "kind_free_text": "z3 4.8.12 (cvc5 1.0 cross-check in the thorough tier) over QF_BV: ~2800 linear-identity queries proving order(M) = 2^64-1 for the xorshift step matrix M extracted natively from /repo"})

# ---------------------------------------------------------------- C16 (integer kernels; float HSL via smt/)
P = "C16"
BOUNDS[P] = "8-bit kernels: all 2^24 RGB / HSL triples; packing: all 2^32 words; float->u8: every f32 incl. NaN/inf; u8 Affine::add: every channel x every i32 delta <= i32::MAX-255"
OUTSIDE[P] = ["to_linear / to_srgb (powf)", "float RGB<->HSL round trip, range and hue-1==hue-0 (float %: CBMC's model is unusable; see smt engine)", "to_hsla/to_rgba agreement with the 3-channel conversions off the 6-step channel lattice"]
LEVEL_TEXT[P] = ("Bounded model checking of the integer colour kernels over their complete input spaces (2^24 triples, 2^32 words, all floats for clamping); "
                 "each is decided by the SAT solver, not enumerated.")
H(P, "c16", "c16_hsl8_to_rgb_total", ("bare",), "all 2^24 8-bit HSL triples", "no panic (debug_assert channel range, unreachable sextant, overflow)", est=60)
H(P, "c16", "c16_rgb8_roundtrip_rmax", ("bare",), "all 8-bit RGB with r the maximum", "RGB->HSL->RGB within 8/255 per channel", est=300, cap=900)
H(P, "c16", "c16_rgb8_roundtrip_gmax", ("bare",), "all 8-bit RGB with g the strict maximum over r", "RGB->HSL->RGB within 8/255 per channel", est=300, cap=900)
H(P, "c16", "c16_rgb8_roundtrip_bmax", ("bare",), "all 8-bit RGB with b the strict maximum", "RGB->HSL->RGB within 8/255 per channel", est=300, cap=900)
H(P, "c16", "c16_grays_and_hue_wrap", ("bare",), "all gray levels, all hues; all (s,l) for hue 0 vs 255", "s==0, l kept, both directions; hue 255 within 8/255 of hue 0", est=60)
H(P, "c16", "c16_alpha_variants", ("bare",), "channels on the lattice {0,51,...,255}^3, every alpha", "to_hsla/to_rgba keep alpha and equal the 3-channel conversion", est=30)
H(P, "c16", "c16_packing", ("bare",), "all 2^32 RGBA words", "byte order of to_rgb_u32/to_rgba_u32/to_argb_u32; to_rgb/to_rgba keep channels, alpha 0xFF", est=5)
H(P, "c16", "c16_float_to_u8_clamps", ("bare", "std"), "every 4 f32 bit patterns", "to_color3/4 == clamp then *255 truncated; NaN -> 0", est=120)
H(P, "c16", "c16_u8_add_saturates", ("bare",), "every u8^3 x every i32^3 delta <= i32::MAX-255", "add saturates to [0,255]; sub exact", est=10)

# ---------------------------------------------------------------- C04
P = "C04"
BOUNDS[P] = "every triangle (all vertex orders, both windings, flat tops/bottoms, slivers down to the lattice step) whose vertices lie on the half-pixel lattice of a 2x2-pixel grid: 5^6 coordinate tuples decided at once per case; sub-pixel triangles on the quarter-pixel lattice of one pixel; cfg bare (quick), libm/std (thorough)"
OUTSIDE[P] = ["triangles larger than 2 px in the quick tier; larger than 3 px in the thorough tier (3x3 grid, split 49 ways on the first vertex)", "vertices off the half-pixel lattice (arbitrary floats): the 0.001-px tolerance band collapses to 'exactly on an edge' on the lattice", "partially off-grid triangles (negative coordinates)", "slivers thinner than the lattice step", "which of two triangles owns a centre lying exactly on their shared edge or vertex: such a centre is inside the property's 0.001-px exception band; the no-gap / no-overdraw consequence is claimed for centres strictly off the edges (each triangle draws exactly its strictly-inside centres), not on them"]
LEVEL_TEXT[P] = ("Bounded model checking of the real tri_fill/scan/ScanlineIter over every lattice triangle of a 2x2-pixel grid at once, against exact integer edge functions: "
                 "strictly-inside centres exactly one fragment, strictly-outside none, on-edge at most one; rows strictly increasing; xs.len == fragment count.")
for y in range(5):
    H(P, "c04", f"c04_cover_g2_y{y}", ("bare",), f"all lattice triangles of the 2x2 grid with first-vertex y = {y}/2 (5^5 tuples, area != 0)", "coverage == integer edge functions; rows increasing; in grid; xs.len == #fragments; no pixel twice", unwind=6, est=250, cap=900)
    H(P, "c04", f"c04_cover_g2_y{y}", ("std", "libm"), f"same under the floor-based rounding variants", "same", unwind=6, est=250, cap=2700, tiers=("thorough",))
H(P, "c04", "c04_degenerate_g2", ("bare",), "all zero-area lattice triangles of the 2x2 grid", "no panic, rows increasing, in grid, no pixel twice", unwind=6, est=200, cap=900)
H(P, "c04", "c04_cover_subpixel", ("bare",), "all triangles on the quarter-pixel lattice of a single pixel (5^6 tuples, area != 0): sub-pixel triangles and slivers", "the centre (1/2,1/2) is drawn exactly once if strictly inside, never if strictly outside; at most one row", unwind=5, est=120, cap=900)
for y in range(7):
    for x in range(7):
        H("C04", "c04", f"c04_cover_g3_{x}{y}", ("bare",), f"all lattice triangles of the 3x3 grid with first vertex ({x}/2, {y}/2) (7^4 tuples, area != 0)", "coverage == integer edge functions; rows increasing; in grid; xs.len == #fragments", unwind=8, est=900, cap=2700, tiers=("thorough",))

# ---------------------------------------------------------------- C05
P = "C05"
BOUNDS[P] = "fragments(): two-fragment scanlines with arbitrary finite attribute values/steps and power-of-two reciprocal depths (exact division), scalar, Vec2, (f32,Vec3), Color3f, (); tri_fill x affine attribute: all lattice triangles of the 2x2 grid x attribute planes with integer coefficients (alpha,beta in [-1,2], gamma in [-4,4]), w = 1; fragments() on a 20-fragment scanline with reciprocal depths z0*(k+1): fragment 8 perspective-correct within 1e-5 relative for integer attribute start/step (quick), fragments 8 and 19 for arbitrary floats (thorough)"
OUTSIDE[P] = ["perspective (w != 1) through tri_fill: tolerance proof over free floats did not finish in 30 min", "arbitrary float attributes / depths through tri_fill", "finiteness for arbitrary finite input with area > 1e-6", "Angle attributes (ZDiv is the identity by design)"]
LEVEL_TEXT[P] = ("Bounded model checking: the per-fragment perspective division is decided bit-for-bit on arbitrary scanlines for scalar, vector, tuple and colour attributes; "
                 "interpolation through tri_fill is decided exactly on the lattice for every affine attribute plane with small integer coefficients.")
H(P, "c05", "c05_fragments_long_int_k8", ("bare",), "Scanline<f32>, 20 fragments: integer attribute start in [-1000,1000] and step in [-10,10], reciprocal depths z0*(k+1), z0 in {1/2,1,2,4}; attribute checked at fragment 8", "every fragment at start+k*step with depth z0*(k+1) exactly; fragment 8: var * own z == stepped value (rel 1e-5): perspective-correct in the middle of a long span, not only at span ends", unwind=23, est=120, cap=600)
for k in (8, 19):
    H(P, "c05", f"c05_fragments_long_k{k}", ("bare",), f"Scanline<f32>, 20 fragments: arbitrary float attribute start/step, reciprocal depths z0*(k+1), z0 in {{1/2,1,2,4}}; attribute checked at fragment {k}", f"as c05_fragments_long_int_k8, for every float start/step, fragment {k} (one float divider plus the multiply-back: 9-16 min)", unwind=23, est=900, cap=2700, tiers=("thorough",))
H(P, "c05", "c05_fragments_f32", ("bare",), "Scanline<f32>, two fragments: arbitrary start position, attribute start/step; reciprocal depths 2^k and 2^(k+1)", "fragment k at start+k*step; var == stepped value / own z exactly", unwind=6, est=120)
H(P, "c05", "c05_fragments_compound", ("bare",), "Scanline<(f32,Vec3)>, <Vec2>, <Color3f>, <()>: n<=2, finite floats", "every component divided by the fragment's own z; () passes through", unwind=4, est=1200, cap=2700, tiers=("thorough",))
H(P, "c05", "c05_fragments_color", ("bare",), "Scanline<Color3f>, two fragments, arbitrary finite channels and steps, reciprocal depths 2^k", "every colour channel divided by the fragment's own z (exactly)", unwind=4, est=120)
H(P, "c05", "c05_fragments_vec", ("bare",), "Scanline<Vec2>, <(f32,Vec3)>, <()>, arbitrary finite components, reciprocal depth 2^k", "every component divided by the fragment's own z (exactly); () passes through", unwind=4, est=120)
H(P, "c05", "c05_scan_depth", ("bare",), "one lattice trapezoid (2x2 grid) through scan(), reciprocal depth an affine function of position", "fragment depth == plane(pixel centre) within 1e-3", unwind=6, est=400, cap=1200)
H(P, "c05", "c05_scan_affine", ("bare",), "one lattice trapezoid (2x2 grid) through scan(), attribute = integer plane at the corners", "fragment at its pixel centre (y exact, x 1e-3), z == 1, var == plane(centre) within 1e-3", unwind=6, est=2000, cap=2700, tiers=("thorough",))
for y in range(5):
    H(P, "c05", f"c05_affine_g2_y{y}", ("bare",), f"lattice triangles (first-vertex y = {y}/2) x integer attribute planes", "fragment at its pixel centre (y exact, x 1e-3), z == 1 and var == plane(centre) within 1e-3, finite", unwind=6, est=1300, cap=2700, tiers=("thorough",))

# ---------------------------------------------------------------- C06
P = "C06"
BOUNDS[P] = "two arbitrary spans on one row of a 2-px (quick) / 3-px (thorough) Framebuf, arbitrary float depth start/step in (1e-3,1e3)x(-10,10), arbitrary colours, default Context; depth_test: every Option<Ordering> x every pair of floats; depth_sort: 3 triangles with distinct small-integer depths"
OUTSIDE[P] = ["order independence of whole triangles through render() (pipeline not encodable); it follows from the per-pixel commutativity only by induction over the fragment stream", "more than two overlapping fragments per pixel in one query", "depth_sort on more than 3 triangles or on ties"]
LEVEL_TEXT[P] = ("Bounded model checking of the write step: Framebuf::rasterize of two arbitrary overlapping spans commutes (depth always, colour unless an exact tie), each pixel keeps the nearest fragment; "
                 "depth_test semantics for all float pairs; depth_sort (via cfg(kani) hook) yields the documented order.")
H(P, "c06", "c06_two_spans_commute", ("bare",), "two arbitrary spans (x0,n,z0,dz,colour) on a W-px row (W = 2 quick, 3 thorough)", "A;B == B;A (depth always, colour unless exact tie); no NaN", unwind=5, est=500, cap=1500)
H(P, "c06", "c06_nearest_wins", ("bare",), "two arbitrary spans, a symbolic pixel", "the pixel holds the larger reciprocal depth among the covering fragments and that fragment's colour; failing fragments write nothing", unwind=5, est=500, cap=1500)
H(P, "c06", "c06_depth_test_semantics", ("bare",), "every (new, curr) float pair incl. NaN/inf x {None, Less, Equal, Greater}", "None passes; Less <=> new > curr (reciprocal depth); default is Less", est=5)
H(P, "c02", "c06_depth_sort_orders", ("bare",), "3 triangles, distinct integer depth sums in [-8,8], arbitrary integer x, y in [-8,8] per triangle, w = 1, both sort directions", "permutation; FrontToBack ascending, BackToFront descending", unwind=12, est=60,
  assumes=["reached through the cfg(kani) hook render::verif_hooks::depth_sort (a plain wrapper)"])

# ---------------------------------------------------------------- C07
P = "C07"
BOUNDS[P] = "arbitrary span on a symbolic row of a Wx2 Framebuf / a Wx2 view at a symbolic offset of a (W+1)x3 colour buffer, W = 2 (quick) / 3 (thorough); all combinations of color_write, depth_write, depth_test in {None,Less,Equal,Greater}, per-column discard mask; is_backface: all lattice triangles of a 4x4 (quick) / 16x16 (thorough) screen, and all finite float triangles for antisymmetry (thorough); Stats counters < 2^31"
OUTSIDE[P] = ["the cull-mode match and the statistics bookkeeping inside render() (calls/prims/verts before and after clipping and culling): only reachable through render(), which is not encodable", "image equality between the two windings with culling off (needs tri_fill on both: covered for coverage by C04's order independence)"]
LEVEL_TEXT[P] = ("Bounded model checking of the configurable write step for both target kinds under every flag combination (colour/depth writes, depth predicate, discarding shader, Throughput in/out, shader invocation count), "
                 "of the face-orientation predicate via a cfg(kani) hook, and of Stats accumulation.")
H(P, "c06", "c07_framebuf_flags", ("bare",), "arbitrary span x flags x depth predicate x discard mask x arbitrary old buffer contents; inverted x-range allowed", "colour cell changes iff pass && !discard && color_write; depth iff pass && !discard && depth_write; io.i/io.o; shader called once per passing fragment; everything else untouched", unwind=8, est=500, cap=1500)
H(P, "c06", "c07_colorbuf_flags", ("bare",), "colour-only target = strided sub-view at symbolic offset; flags, discard mask", "writes iff !discard && color_write, inside the view only; depth flags ignored; io", unwind=14, est=60)
H(P, "c06", "c07_stats_add", ("bare",), "all counters symbolic < 2^31", "Stats += Stats and Throughput += Throughput add component-wise", unwind=18, est=30)
H(P, "c02", "c07_backface_orientation", ("bare",), "all triangles on the half-pixel lattice of a 4x4 screen (9^6 tuples; thorough: 16x16, 33^6)", "is_backface == sign of exact integer orientation; swap flips, rotation keeps; degenerate is neither", est=300, cap=900,
  assumes=["reached through the cfg(kani) hook render::verif_hooks::is_backface (a plain wrapper)"])
H(P, "c02", "c07_backface_antisymmetric", ("bare",), "all finite float triangles |c| <= 1e6", "the two vertex orders are never both backfaces", est=1500, cap=2700, tiers=("thorough",))

# ---------------------------------------------------------------- C02
P = "C02"
BOUNDS[P] = "round_up_to_half: every float in [-0.5, 2^22); perspective divide + viewport transform: every clip vertex inside the frustum with w in [2^-10,2^10] x every viewport <= 4096^2; scan(): trapezoids up to 3 rows tall with edges within 1e-3 of any pixel rectangle inside 64x64 (arbitrary floats); tri_fill: all lattice triangles of the 2x2 grid incl. degenerate (shared with C04); rasterize: see C07 harnesses (writes only row y, columns xs)"
OUTSIDE[P] = ["the clipper's guarantee |x|,|y|,|z| <= w (C03, not decidable here)", "accumulation of edge-stepping error over more than 3 rows", "every render()-level statement (composition)", "NaN / infinite coordinates into tri_fill"]
LEVEL_TEXT[P] = ("Bounded model checking of the units that index buffers unchecked: the half-pixel rounding rule (all floats), the margin lemma through scan() on arbitrary floats near a viewport border, "
                 "tri_fill on the lattice (no panic, in grid), and Target::rasterize writing only the addressed span. The composed pipeline is not claimed.")
H(P, "c02", "c02_round_up_to_half", ALL4, "every f32 in [-0.5, 2^22)", "half-integer, >= x, within 1 of x, index == floor", est=5)
H(P, "c02", "c02_divide_and_viewport", ("bare",), "clip vertex with |x|,|y| <= w, w in [2^-10,2^10] (all floats) x every viewport rectangle <= 4096^2", "NDC in [-1,1]; screen position inside the viewport rectangle within 1e-3; reciprocal depth positive and finite", unwind=6, est=200, cap=900)
H(P, "c02", "c02_scan_margin_1row", ("bare",), "arbitrary float trapezoid at most one pixel tall, edges within 1e-3 of a pixel rectangle [l,r)x[t,b) in 64x64", "t <= y < b; l <= xs.start; max(xs.start,xs.end) <= r", unwind=4, est=2400, cap=2700, tiers=("thorough",))
H(P, "c02", "c02_scan_margin", ("bare", "std"), "arbitrary float trapezoid <= 3 rows, edges within 1e-3 of a pixel rectangle [l,r)x[t,b) in 64x64", "t <= y < b; l <= xs.start; max(xs.start,xs.end) <= r; rows increasing", unwind=5, est=2400, cap=2700, tiers=("thorough",))
H(P, "c04", "c04_degenerate_g2", ("bare",), "all zero-area lattice triangles", "no panic (partial_cmp().unwrap() included), in grid", unwind=6, est=200, cap=900)
for y in range(5):
    H(P, "c04", f"c04_cover_g2_y{y}", ("bare",), f"all lattice triangles of the 2x2 grid (vertices on the grid border included) with first-vertex y = {y}/2", "no panic; every scanline has y < 2 and xs.end <= 2 (plus the C04 coverage oracle)", unwind=6, est=250, cap=900)
H(P, "c06", "c07_framebuf_flags", ("bare",), "arbitrary span / flags (see C07)", "only row y, columns xs of both buffers change; depth buffer NaN-free", unwind=8, est=500, cap=1500)

# ---------------------------------------------------------------- C09
P = "C09"
BOUNDS[P] = "then vs compose: affine matrices with small integer entries; transpose: arbitrary float matrices; apply o compose: 3x3 affine with entries {-1,0,1}; 4x4: A affine with entries {-1,0,1}, B = translate o scale built with the constructors; integer probes; inverse: all M = P*D*T with P any axis permutation, D = diag(+-2^k), |k|<=2, T integer translation in [-3,3]^3, and all triangular (sheared) matrices with diagonal +-2^k, integer shears in [-2,2] and integer translation; constructors: arbitrary finite floats <= 2^60; determinant: affine matrices with entries in {-1,0,1}; orient_y/orient_z: a concrete table of 4 unit axes x 3 unit directions (cfg libm, test-like)"
OUTSIDE[P] = ["inverse of arbitrary well-conditioned float matrices (tolerance proof over 16 free floats)", "rotate_x/y/z, and orient_y/z off the concrete table: values of sin/cos/normalize (transcendentals have no solver semantics; libm powf is tractable on constants only)", "apply() on *vectors* uses the homogeneous 1 (documented TODO in the source): translation leaks into vectors; recorded as a known finding, not asserted"]
LEVEL_TEXT[P] = ("Bounded model checking with relational oracles (two runs of the real code must agree exactly) on integer / power-of-two families where float arithmetic is exact: "
                 "composition vs sequential application, then vs compose, Gauss-Jordan inverse under every pivoting pattern, constructors' defining effects on arbitrary floats, multiplicative determinant.")
H(P, "c09", "c09_then_is_compose_swapped", ("bare",), "arbitrary float 4x4 and 3x3 pairs", "a.then(b) bit-identical to b.compose(a)", unwind=6, est=60)
H(P, "c09", "c09_apply_compose_4x4", ("bare",), "affine 4x4, entries in {-1,0,1,2}; probes in [-2,2]^3", "(A o B)v == A(Bv) exactly, vectors and points; then == swapped; bottom row stays affine", unwind=6, est=300, cap=900)
H(P, "c09", "c09_apply_compose_3x3", ("bare",), "affine 3x3, entries in [-3,3]; probes in [-4,4]^2", "(A o B)v == A(Bv) exactly", unwind=6, est=120)
for perm in ("012", "021", "102", "120", "201", "210"):
    H(P, "c09", f"c09_inverse_perm_{perm}", ("bare",), f"M = P({perm}) * diag(+-2^k) * T, k in [-2,2], t in [-3,3]^3", "inverse() does not panic; M^-1 o M == I == M o M^-1 exactly", unwind=6, est=200, cap=900)
H(P, "c09", "c09_inverse_shear_upper", ("bare",), "upper-triangular M: diagonal +-2^k (|k|<=1), integer shear entries in [-2,2], integer translation in [-2,2]^3", "inverse() does not panic; M^-1 o M == I == M o M^-1 within 1e-5 (exact here)", unwind=6, est=500, cap=1500)
H(P, "c09", "c09_inverse_shear_lower", ("bare",), "lower-triangular M: same family (elimination below the diagonal, pivots that are not powers of two)", "inverse() does not panic; M^-1 o M == I == M o M^-1 within 1e-5", unwind=6, est=2000, cap=2700, tiers=("thorough",))
H(P, "c09", "c09_translate", ("bare",), "arbitrary finite floats |.| <= 2^60", "translate(t).apply_pt(p) == p + t exactly; det == 1", unwind=6, est=150, cap=900)
H(P, "c09", "c09_constructors", ("bare",), "arbitrary finite floats |.| <= 2^60", "translate/scale/from_basis defining effect exactly; det(translate) == 1", unwind=6, est=120)
H(P, "c09", "c09_scale_determinant", ("bare",), "integer scale factors in [-8,8]^3", "det(scale) == x*y*z; identity", unwind=6, est=30)
H(P, "c09", "c09_det_multiplicative", ("bare",), "A affine with entries in {-1,0,1}; B = translate o scale with small integer parameters (quick) / any such affine matrix (thorough)", "det(A o B) == det(A)*det(B) exactly", unwind=6, est=400, cap=1200)
H(P, "c09", "c09_orient_is_rotation", ("libm",), "orient_y / orient_z on a concrete table: 4 unit `new` axes x 3 unit Pythagorean `x` directions, neither perpendicular nor parallel (test-like: normalize = libm powf, evaluated by the engine on constants)", "selected axis maps onto `new` (1e-6); basis columns orthonormal (1e-5); determinant +1 (1e-5); no translation", unwind=8, est=600, cap=1800)
H(P, "c09", "c09_transpose", ("bare",), "arbitrary float 4x4", "transpose swaps indices bitwise; involution", unwind=6, est=30)

# ---------------------------------------------------------------- C08
P = "C08"
BOUNDS[P] = "perspective: f, aspect in 2^[-2,2], near in 2^[-4,4], far/near in 2^[1,10], depths near*2^j, x,y integers in [-8,8] (exact arithmetic); orthographic: integer corners, power-of-two extents; viewport: all u32 rectangles <= 4096; Rect algebra: all rects with optional bounds <= 8 against point membership; Camera: dims <= 64x64, requested viewports with bounds <= 100 in three range forms; FirstPerson::translate (cfg libm): three (thorough: four) concrete headings x every finite position and displacement <= 1024"
OUTSIDE[P] = ["perspective on arbitrary float parameters (near/far -> -1/+1 within tolerance exceeded 15 min)", "FirstPerson look_at, rotate_to, world_to_view, and translate on headings outside the concrete table: atan2 / sin_cos / wrap values are transcendental or go through float % (world_to_view with a symbolic position: 11 M variables, no verdict in 30 min)", "Camera::render (goes through render())"]
LEVEL_TEXT[P] = ("Bounded model checking on exact (dyadic / integer) parameter families: perspective and orthographic map their view volume to the clip volume with near/far at the depth bounds and depth order preserved; "
                 "viewport maps the NDC square onto the pixel rectangle exactly; Rect algebra against a point-membership oracle; Camera confines its viewport to the frame; FirstPerson::translate moves along the horizontal heading, right and up axes for every position and displacement on concrete headings (cfg libm).")
H(P, "c08", "c08_perspective_dyadic", ("bare",), "f,a in 2^[-2,2]; near in 2^[-4,4]; far = near*2^[1,10]; z = near*2^j; x,y in [-8,8]", "w == z; x_c == f x; y_c == f a y; near -> -1, far -> +1 (1e-6); order kept; side planes <=> pyramid", unwind=6, est=300, cap=900)
H(P, "c08", "c08_perspective_rejects", ("bare",), "finite parameters with f<=0 or a<=0 or near<=0 or far<=near", "panics", kind="should_panic", est=20)
H(P, "c08", "c08_orthographic_dyadic", ("bare",), "integer lbn in [-8,8]^3, extents 2^[0,4]", "corners -> (-1,-1,-1,1)/(1,1,1,1), centre -> origin", unwind=6, est=120)
H(P, "c08", "c08_viewport_matrix", ("bare",), "all l<=r<=4096, t<=b<=4096; finite z", "(-1,-1)->(l,t); (1,1)->(r,b); centre->centre; z passes", unwind=6, est=60)
H(P, "c08", "c08_rect_algebra", ("bare",), "two rects with optional bounds <= 8, probe point <= 9", "contains == membership; intersect == conjunction; is_empty/width/height", est=60)
for n, hd, tr in [("level", "azimuth 1/2 turn, level", None), ("up", "azimuth 1/4 turn, pitched up 30 degrees", None), ("down", "azimuth 0, pitched down 60 degrees", None), ("diagonal", "azimuth 1/8 turn, pitched up 30 degrees (no zero in the basis)", ("thorough",))]:
    H(P, "c08", f"c08_first_person_translate_{n}", ("libm",), f"FirstPerson with the concrete heading {hd} (libm sin/cos evaluated by the engine on constants) x every position and displacement with finite components <= 1024", "translate(delta): moves delta.y along +y, delta.z along the horizontal heading (cos az, 0, sin az) regardless of pitch, |delta.x| along the horizontal perpendicular (tolerance 1e-2)", unwind=8, est=300, cap=(2700 if tr else 1500), **({"tiers": tr} if tr else {}))
H(P, "c08", "c08_rect_from_bounds", ("bare",), "Rect::from((H,V)) with every combination of Included/Excluded/Unbounded start and end bounds, values <= 8, probe points <= 10", "contains(x,y) == H.contains(x) && V.contains(y)", est=60)
H(P, "c08", "c08_camera_viewport", ("bare",), "frame <= 64x64, requested bounds <= 100, forms (a..b,c..d) / (a..,..d) / vec..vec", "dims and NDC-corner images are those of bounds ∩ frame; always inside the frame; empty intersection => zero area", unwind=6, est=120)
H(P, "c08", "c08_camera_projection", ("bare",), "dims <= 64x64, f in 2^[-2,2], integer view translation", "perspective(aspect = w/h); world_to_project == mode.then(project); orthographic passes the box", unwind=6, est=200, cap=900)

# ---------------------------------------------------------------- C13
P = "C13"
BOUNDS[P] = "binary formats P5/P6: a fixed table of 12 header spellings (separators LF/TAB/CR/space, comments before and between fields, zero and overflowing dimensions) x arbitrary payload bytes (<= 9) x every truncation point; unknown magic numbers and P1 files with out-of-range samples (concrete table); round trip of 2x2 sub-views of a 3x3 image with arbitrary pixels (cfg std)"
OUTSIDE[P] = ["arbitrary / mutated header text: any symbolic header digit makes parse_num (String + str::parse) time out", "text formats P2/P3 with symbolic samples and their agreement with P5/P6", "P4 bitmaps: the decoder's nested flat_map over bits does not get through symbolic execution even for one payload byte (15 min in symex)", "images larger than 3x3", "the header table is a finite hand-picked list: that half is test-like"]
LEVEL_TEXT[P] = ("Bounded model checking of parse_pnm with concrete header text and fully symbolic binary payload/truncation: no panic, Ok => dimensions and pixel count match the header and pixels are the payload verbatim, "
                 "short payload => Err; zero-sized and overflowing dimensions never panic; write_ppm -> read_pnm round trip on strided views.")
for n, dom in [("c13_p6_2x1", "'P6 2 1 255\\n'"), ("c13_p6_1x2_tabs_cr", "'P6\\t1\\r\\n2\\n255 '"), ("c13_p6_comments", "P6 with comments before and between fields"), ("c13_p5_3x3", "'P5 3 3 255\\n'"), ("c13_p5_2x2_comment", "P5 with comments")]:
    H(P, "c13", n, ("bare",), dom + " ++ arbitrary payload bytes (one more than needed, up to 9) truncated at any point", "Ok <=> payload complete; dims/pixel count == header; pixels == payload bytes; else Err", unwind=40, est=120, cap=900)
for n in range(8):
    H(P, "c13", f"c13_p6_2x1_cut{n}", ("bare",), f"'P6 2 1 255\\n' ++ the first {n} of 7 arbitrary payload bytes (concrete length: {'complete' if n >= 6 else 'truncated' + (' mid-pixel' if n % 3 else '')})", "Ok <=> complete, pixels == payload; else Err; no panic", unwind=40, est=120, cap=900)
for n, dom in [("c13_p6_0x3", "'P6 0 3 255\\n'"), ("c13_p6_2x0", "'P6 2 0 255\\n'"), ("c13_p5_0x0", "'P5 0 0 255\\n'")]:
    H(P, "c13", n, ("bare",), dom + " ++ <= 4 arbitrary bytes", "Ok with the header's dims and no pixels; no panic", unwind=24, est=60)
for n, dom in [("c13_p6_overflowing_dims", "'P6 65536 65536 255'"), ("c13_p6_huge_width", "'P6 4294967295 2 255'"), ("c13_p5_large", "'P5 40000 40000 255'"), ("c13_p6_dim_too_big_for_u32", "'P6 4294967296 1 255'")]:
    H(P, "c13", n, ("bare",), dom + " ++ <= 4 arbitrary bytes", "Err, never a panic", unwind=40, est=60)
H(P, "c13", "c13_bad_magic", ("bare",), "5 concrete files with unknown or truncated magic numbers (test-like)", "Err, no panic", unwind=12, est=120, cap=900)
H(P, "c13", "c13_p1_total", ("bare",), "2 concrete P1 (plain bitmap) files: sample 2; samples 1 and 255 (test-like)", "no panic; an Ok has the header's dimensions and w*h pixels (P1 is unsupported today; accepting it is not pinned as an error)", unwind=12, est=200, cap=900)
H(P, "c13", "c13_garbage_after_magic", ("bare",), "6 concrete malformed files and 2 concrete text-format files (test-like: concrete execution by the symbolic engine)", "malformed numbers => Err; P2/P3 text samples decode", unwind=24, est=1500, cap=2700, tiers=("thorough",))
H(P, "c13", "c13_write_ppm_view", ("std",), "2x2 sub-view at any offset of a 3x3 image with arbitrary pixel bytes", "write_ppm emits 'P6 2 2 255\\n' + the view's pixels row-major (the decode harnesses cover reading exactly that spelling back)", unwind=24, est=600, cap=1500)
H(P, "c13", "c13_roundtrip_2x2_view", ("std",), "2x2 sub-view at any offset of a 3x3 image with arbitrary pixel bytes", "read_pnm(write_ppm(view)) == view", unwind=40, est=2000, cap=2700, tiers=("thorough",))

# ---------------------------------------------------------------- C17
P = "C17"
BOUNDS[P] = "evaluators: integer control points in [-2,2]^4 (f32, Vec2, Point2), t in {1/4,1/2,3/4} (exact lattice); ends/totality: every float t and control point incl. NaN; spline segments: n = 1,2,3,4,8 segments on collinear control points for every float t; n = 2,4 on integer control points at t = j/(4n); joins: n = 1..4, integer control points in [-4,4]; approximate(): every subdivision tree of depth <= 2 on the curve 3t^2; the depth budget itself (via hook) at budget 2"
OUTSIDE[P] = ["agreement of eval and fast_eval on arbitrary floats (tolerance proof)", "approximate(): the numeric value of the recursion-depth bound, 10 + log2(len) (needs depth >= 12; the budget mechanism is checked at budget 2 through the hook) and multi-segment splines; error criterion semantics beyond the subdivision-tree shape", "segment counts above 4; 3-D and colour instances", "BezierSpline::tangent scaling by the segment count"]
LEVEL_TEXT[P] = ("Bounded model checking: evaluators and tangent against the integer Bernstein form on an exact lattice, end-point and NaN behaviour for all floats, "
                 "spline segment selection bit-identical to the per-segment cubic for every float parameter, join interpolation.")
H(P, "c17", "c17_evaluators_lattice_f32", ("bare",), "integer control points [-2,2]^4, t = k/4", "eval*64 == fast_eval*64 == Bernstein integer form; tangent*16 == derivative; inside control bounds", est=120, cap=900)
H(P, "c17", "c17_evaluators_lattice_2d", ("bare",), "Vec2 and Point2 instances, same lattice", "componentwise Bernstein form, eval and fast_eval", unwind=4, est=300, cap=900)
H(P, "c17", "c17_ends_and_totality", ("bare",), "every float t, every 4 float control points (NaN/inf incl.)", "t<=0 => p0, t>=1 => p3 bitwise (eval, fast_eval, spline); tangent clamps; no panic", unwind=6, est=60)
H(P, "c17", "c17_ends_exact", ("bare",), "control points from a table of 8 non-dyadic / mixed-magnitude values (8^4 polygons), t in {-3, -0.0, 0, 1, 1.5}", "eval, fast_eval, spline eval return the end control point itself bitwise; step() clamps inclusively", unwind=6, est=60)
for n in (1, 2, 3, 4, 8):
    H(P, "c17", f"c17_segment_linear_n{n}", ("bare",), f"{n}-segment spline with control points on a line, every float t in [0,1]", "eval(t) == 3*n*t within 1e-3: right segment and re-based local parameter for every t", unwind=28 if n == 8 else 16, est=120, cap=900)
for n in (2, 4):
    H(P, "c17", f"c17_segment_lattice_n{n}", ("bare",), f"{n}-segment spline, integer control points in [-2,2], t = j/{4*n}", "eval(t)*64 == integer Bernstein form of the segment containing t", unwind=16, est=200, cap=900)
for n in (1, 2, 3, 4):
    H(P, "c17", f"c17_joins_n{n}", ("bare",), f"{n}-segment spline, integer control points in [-4,4], t = k/{n}", "eval(k/n) == control point 3k (1e-3); eval(0), eval(1) are the end points", unwind=16, est=120, cap=900)
H(P, "c17", "c17_approximate_trees", ("bare",), "approximate() on the curve x = 3t^2 with a halt predicate that is arbitrary above depth D and true at depth D: every subdivision tree of depth <= 2 (depth 3 exhausts memory)", "terminates; first == p0, last == p_end exactly; points 3a^2 at strictly increasing dyadic a; every gap an aligned power of two (a node of the bisection tree)", unwind=12, est=120, cap=900)
H(P, "c17", "c17_approximate_depth_bound", ("bare",), "the subdivision behind approximate() with the explicit depth budget B = 2 on the curve x = 3t^2, criterion met only one level below the budget (depth 3)", "stops at depth B on every path (left and right turns alike): 2^B+1 vertices on the grid k/2^B, gaps aligned powers of two; criterion unmet at the bound => the full grid", unwind=12, est=200, cap=900,
  assumes=["reached through the cfg(kani) hook BezierSpline::verif_approximate_to_depth (do_approx with the budget as a parameter; approximate() itself passes 10 + log2(len))"])
H(P, "c17", "c17_new_rejects_bad_length", ("bare",), "every length <= 12 that is not 3n+1 (n>=1)", "BezierSpline::new panics", kind="should_panic", unwind=16, est=30)
H(P, "c17", "c17_smoothstep", ("bare",), "every float t; lattice k/16", "clamps outside [0,1]; fixed point 1/2; == 3t^2-2t^3 exactly on the lattice; in [0,1]", est=30)

# ---------------------------------------------------------------- C18
P = "C18"
BOUNDS[P] = "unit conversions: |a| in [1,2) (one binade, both signs); cross conversion on the dyadic turn lattice k/64, |k| <= 4096; operators/min/max/clamp: all non-NaN floats"
OUTSIDE[P] = ["wrap(): goes through float %, which CBMC cannot model (see the SMT engine)", "polar/spherical <-> Cartesian inverse-ness, azimuth/altitude ranges, sin^2+cos^2 = 1, sin_cos vs sin/cos: need transcendental values, which have no solver semantics"]
LEVEL_TEXT[P] = ("Bounded model checking of the unit conversions (round trips within 4 ulp over the whole finite range) and of every arithmetic / ordering operation acting bit-for-bit on the radian magnitude. "
                 "Wrapping is decided by the SMT engine; the trigonometric half of the property is undecided.")
H(P, "c18", "c18_unit_round_trips", ("bare",), "|a| in [1,2), both signs: quick = 12 leading mantissa bits (8192 values, solver-decided); thorough = every float", "rads exact; degs/turns round trips within 4 ulp; FULL/STRAIGHT/RIGHT consistent", est=300, cap=900)
H(P, "c18", "c18_cross_conversion", ("bare",), "turns = k/64, |k| <= 4096", "turns(x) and degs(360x) within 4 ulp in radians and back", est=120, cap=900)
H(P, "c18", "c18_ops_on_magnitude", ("bare",), "all non-NaN float triples", "+,-,neg,min,max,clamp, Affine, Linear::neg/zero act on the radian value bitwise", est=60)
H(P, "c18", "c18_scaling", ("bare",), "every finite x with |x| in [1e-30,1e30], scalar +-2^k, |k| <= 3", "angle*s, angle/s, Linear::mul scale the radian value exactly (exponent shift)", est=30)


def _float_props_external(prop):
    def run(tier, scratch, say):
        import importlib.util, os
        spec = importlib.util.spec_from_file_location("float_props", os.path.join(os.path.dirname(os.path.abspath(__file__)), "smt", "float_props.py"))
        m = importlib.util.module_from_spec(spec)
        spec.loader.exec_module(m)
        r = m.obligations(prop, tier, scratch, say)
        for x in r:
            x.pop("model", None)
        return r
    return run


EXTERNAL["C20"] = _float_props_external("C20")
EXTERNAL["C18"] = _float_props_external("C18")
TECHNIQUE["C20"] = "bounded model checking (Kani/CBMC) of floor/abs/sqrt/recip_sqrt in 4 feature configurations; rem_euclid by symbolic execution of rustc MIR into SMT-LIB (IEEE-754 theory, fmod from fp.rem) decided by cvc5, translation validated against native runs"
TECHNIQUE["C18"] = "bounded model checking (Kani/CBMC) of conversions and operators; Angle::wrap by symbolic execution of rustc MIR into SMT-LIB floats decided by cvc5, translation validated against native runs"
EXTRA_ENGINES.append({"name": "mir2smt-cvc5", "path": "smt/mir2smt.py", "serves_properties": ["C18", "C20"],
                      "kind_free_text": "symbolic executor for loop-free scalar rustc MIR (dumped from /repo on every run) producing SMT-LIB over IEEE-754 floats and bit-vectors; cvc5 1.0 decides; every run first validates the translation bit-for-bit on 256 native test vectors; counterexamples are replayed natively"})
OUTSIDE["C20"] = [x for x in OUTSIDE["C20"] if not x.startswith("rem_euclid off the dyadic lattice")] + [
    "rem_euclid with |x| > 1024*m (the range query is posed for quotients up to 2^10), and its congruence off the dyadic lattice",
    "rem_euclid of the std and micromath backends (core / third-party code; the fallback implementation is what libm and no-feature builds use)"]
BOUNDS["C20"] += "; rem_euclid (SMT): range for every finite x, m>0 with |x| <= 1024 m; congruence on the dyadic lattice"
BOUNDS["C18"] += "; wrap (SMT): range for all finite a, lo<hi with |.| <= 4096 rad and hi-lo >= 2^-10; congruence on the dyadic lattice"
OUTSIDE["C18"] = [x for x in OUTSIDE["C18"] if not x.startswith("wrap()")] + ["wrap with angles beyond 4096 rad or intervals narrower than 2^-10; wrap under std/mm (core's / micromath's rem_euclid)"]


EXTERNAL["C16"] = _float_props_external("C16")
TECHNIQUE["C16"] = "bounded model checking (Kani/CBMC) of the integer colour kernels over their whole domains; float HSL<->RGB by symbolic execution of rustc MIR into SMT-LIB floats decided by cvc5, translation validated against native runs"
EXTRA_ENGINES[-1]["serves_properties"] = ["C16", "C18", "C20"]
OUTSIDE["C16"] = ["to_linear / to_srgb (powf)",
                  "float HSL<->RGB off the dyadic lattices in the quick tier (hue k/32, other channels k/8); the thorough tier poses the same queries over every float in [0,1]^3 under a cap and may stay inconclusive there",
                  "float round trip for colours finer than the k/16 lattice",
                  "to_hsla/to_rgba agreement with the 3-channel conversions off the 6-step channel lattice"]
BOUNDS["C16"] += "; float HSL->RGB (SMT): no panic and grays for every float, range / channel order per sextant / hue 1 == hue 0 on h=k/32, s,l=k/8; float RGB->HSL (SMT): range on k/8, grays and the sub-2^-24 region for every float; round trip <= 1e-4 on k/8 (quick) / k/16 (thorough)"
LEVEL_TEXT["C16"] = ("Bounded model checking of the integer colour kernels over their complete input spaces (2^24 triples, 2^32 words, all floats for clamping), each decided by the SAT solver; "
                     "the float HSL conversions, which go through float %, are executed symbolically from rustc MIR into SMT-LIB and decided by cvc5 on dyadic lattices that contain every sextant boundary and interior.")
