"""Obligation registry: one entry per Kani proof harness (kani/src/<mod>.rs).

Fields
  name     harness function name            mod   module path inside crate rfv
  prop     property id                      cfgs  retrofire-core feature sets it runs under
  tiers    ("quick","thorough") default     cap   wall cap in seconds (default 480 / 2700)
  est      rough cost in seconds on the pinned tree (scheduling + sizing: must be <= 50% of cap)
  kind     hold | witness (expected to fail: known finding) | should_panic
  domain   the symbolic input domain = the bound of the claim
  oracle   what is asserted
  unwind   the #[kani::unwind] bound in the source (documentation)
  assumes  stubs / assumptions that are part of the claim
"""

HARNESSES = []
NOT_APPLICABLE = {}
EXTERNAL = {}
ASSUMPTIONS = {
    "*": [
        "Kani 0.68 / CBMC 6.11 translate the MIR of /repo's current working tree faithfully (bit-precise integers, IEEE-754 binary32 via CBMC's float encoding)",
        "cargo kani builds with debug assertions and overflow checks on (dev profile); --no-overflow-checks only disables CBMC's own NaN / float-overflow instrumentation, Rust panics (overflow, bounds, unwrap, debug_assert, unreachable) stay checked",
        "unwinding assertions are on: every loop bound is checked, not assumed",
        "counterexamples are believed only after native replay (Kani concrete playback) against the real crate in dev and release-like profiles",
    ],
}
BOUNDS = {}
OUTSIDE = {}


def H(prop, mod, name, cfgs, domain, oracle="", **kw):
    d = dict(prop=prop, mod=mod, name=name, cfgs=list(cfgs), domain=domain, oracle=oracle)
    d.update(kw)
    HARNESSES.append(d)
    return d


ALL4 = ("bare", "libm", "mm", "std")
FP3 = ("libm", "mm", "std")


# ---------------------------------------------------------------- C20
P = "C20"
BOUNDS[P] = "floor/abs: every f32 bit pattern (floor split at 2^31); rem_euclid: dyadic lattice x=k/16, m=j/16, |k|<=1024, 1<=j<=256; sqrt / recip_sqrt: every positive normal x in [2^-60, 2^60], one-float tolerance query"
OUTSIDE[P] = [
    "accuracy of sin/cos/tan/asin/acos/atan2/powf/exp of libm and micromath against std: no reference semantics for transcendentals exists inside the solver (Kani models the std intrinsics as unconstrained)",
    "rem_euclid off the dyadic lattice: CBMC's model of float % is x - trunc(x/m)*m with rounding and is demonstrably wrong for some operands (subnormal x), so only the lattice validated by c20_fmod_model_table is claimed",
    "micromath floor for |x| >= 2^31 (third-party code going through i32; only totality is claimed there)",
    "recip_sqrt under libm/std (powf)",
]
H(P, "c20", "c20_floor", ALL4, "every f32 with |x| < 2^31", "r integral, r <= x < r+1 (r == x beyond 2^23)", est=5)
H(P, "c20", "c20_floor_huge", ("bare", "libm", "std"), "every f32 bit pattern with not(|x| < 2^31): huge, +-inf, NaN", "floor(x) == x, no panic", est=5)
H(P, "c20", "c20_floor_total", ("mm",), "every f32 bit pattern", "no panic", est=5)
H(P, "c20", "c20_abs", ALL4, "every f32 bit pattern", "bits(abs x) == bits(x) & 0x7fffffff", est=2)
H(P, "c20", "c20_sqrt", ("mm", "std"), "every f32 x in [1, 4)", "y>=0, |y*y-x| <= tol*x (2 ulp std, 4e-3 mm)", est=120,
  assumes=["cfg std: Kani's sqrtf32 intrinsic model (CBMC built-in, IEEE correctly rounded)"])
H(P, "c20", "c20_recip_sqrt", ("bare", "mm"), "every f32 x in [1, 4)", "|y*y*x - 1| <= 5e-3", est=120)

# ---------------------------------------------------------------- manifest texts
ENGINE = {}
TECHNIQUE = {}
LEVEL_TEXT = {}
LEVEL_NOTE = {}
HOOK_COMMITS = []
EXTRA_ENGINES = []
DEFAULT_NOTE = ("Trusted: Kani's MIR->goto translation, CBMC's bit-precise integer and IEEE-754 float encoding, CaDiCaL; "
                "harness oracles and stated input domains (evidence/<id>.json lists every harness with its domain, assumptions and what lies outside the bound). "
                "Bounded: holds for all inputs inside each harness's domain, says nothing outside it.")
LEVEL_TEXT["C20"] = ("Bounded model checking of the real helper functions in all four feature configurations: floor and abs decided for every f32 bit pattern "
                     "(floor against its defining property r integral, r<=x<r+1), sqrt/recip_sqrt as one-float tolerance queries over two full binades. "
                     "The transcendental functions are outside (no solver semantics), rem_euclid is decided by the SMT engine because CBMC's float % model is unusable.")

NOT_APPLICABLE.update({
    "C01": "composition of the whole pipeline: render() cannot be brought through symbolic execution in any form tried (symbolic lattice geometry, concrete geometry with symbolic attributes, unclipped lattice triangle into a null target: all > 25 min; the clipper alone exhausts 40 GB); the stage facts are claimed where decidable (C02, C04-C08)",
    "C03": "every clipper entry point pushes symbolic ClipVerts through a growing Vec: one plane x one edge already exhausts 40 GB in the SAT back end, on float ranges and on integer lattices alike; no add-only hook changes that",
    "C10": "the observable is rustc's accept/reject verdict on a corpus of programs; there is no function to execute symbolically and no input to make symbolic, so no solver verdict over the real code exists",
    "C14": "parse_obj is String::extend + split_ascii_whitespace + str::split + str::parse; with three symbolic digits in one face line symbolic execution did not finish in 20 min / 9 GB (memchr alignment cases, String growth, dec2flt)",
    "C15": "per configuration the mesh is a constant (sin/cos of count-derived angles, index arithmetic on counts); symbolic counts make loop bounds and Vec lengths symbolic (the encoding that fails for the clipper), concrete counts leave nothing for a solver to range over",
})

# ---------------------------------------------------------------- C12
P = "C12"
BOUNDS[P] = "coordinates: every pair of f32 bit patterns (NaN, +-inf, subnormals included); texture sizes: {1,2,4,8}^2 (repeat), [1,5]^2 (clamp); owned and borrowed (sub-rectangle of 8x4 at every offset)"
OUTSIDE[P] = ["textures larger than 8x8 (repeat) / 5x5 (clamp)", "texel types other than (u32,u32)", "behaviour of SamplerOnce out of range (unspecified by the docs)"]
LEVEL_TEXT[P] = ("Bounded model checking of the three samplers in all four float configurations over the whole f32 x f32 coordinate domain; the texel read is its own address, "
                 "so the integer oracle (floor in f64, mod / clamp in i64) decides which texel was addressed. Only texture size is bounded.")
H(P, "c12", "c12_repeat_abs", ALL4, "u,v: all f32 bit patterns; dims symbolic in {1,2,4,8}^2; owned Buf2", "no panic; |u|<2^31 => x == floor(u) mod w (same for v)", unwind=66, est=60)
H(P, "c12", "c12_repeat_rel", ALL4, "u,v: all f32; 4x4", "sample(tc) == sample_abs(w*u, h*v)", unwind=18, est=30)
H(P, "c12", "c12_repeat_borrowed", ALL4, "u,v: all f32; sub-rectangle {1,2,4}x{1,2} of an 8x4 buffer at every offset", "address inside the sub-rectangle and == floor mod size relative to it", unwind=34, est=60)
H(P, "c12", "c12_clamp_abs", FP3, "u,v: all f32; dims symbolic in [1,5]^2", "no panic; texel == floor(clamp(u,0,w-1)); relative == absolute scaled", unwind=27, est=60)
H(P, "c12", "c12_once_agrees", ALL4, "dims {1,2,4}^2, 0<=u<w, 0<=v<h (all floats in range)", "SamplerOnce == repeat == clamp == floor", unwind=18, est=30)
H(P, "c12", "c12_once_rel", ALL4, "4x2, all (u,v) whose scaled value is in range", "sample == sample_abs scaled", unwind=18, est=30)
