#!/usr/bin/env python3
"""Regenerates MANIFEST.json from registry.py (claimed properties = those with registered obligations)."""
import json, os, sys
ROOT = os.path.dirname(os.path.abspath(__file__))
sys.path.insert(0, ROOT)
import registry as R

ALL = ["C%02d" % i for i in range(1, 21)]
claimed = sorted({h["prop"] for h in R.HARNESSES} | set(R.EXTERNAL))
checks = []
for p in claimed:
    checks.append({
        "property_id": p,
        "quick_cmd": f"./check {p} --tier quick",
        "thorough_cmd": f"./check {p} --tier thorough",
        "evidence_file": f"evidence/{p}.json",
        "replay_cmd_template": f"./check {p} --replay {{path}}",
        "engine": R.ENGINE.get(p, "kani-cbmc"),
        "level_claimed": {
            "category": "model_checking",
            "text": R.LEVEL_TEXT[p],
            "design_ref": f"DESIGN.md section 4, {p}",
        },
        "level_note": R.LEVEL_NOTE.get(p, R.DEFAULT_NOTE),
        "technique": R.TECHNIQUE.get(p, "bounded model checking of the compiled Rust (Kani/CBMC, SAT) over symbolic inputs; counterexamples replayed natively"),
    })
na = []
for p in ALL:
    if p in claimed:
        continue
    na.append({"property_id": p, "reason": R.NOT_APPLICABLE.get(p, "not claimed")})
m = {
    "version": 1,
    "setup_cmd": "./check --list > /dev/null && cargo kani --version",
    "hooks": {
        "guard": "kani",
        "enable": "cargo kani passes --cfg kani to every crate it builds; hook code in /repo is under #[cfg(kani)] and is compiled only by the checks",
        "baseline_off_cmd": "cd /repo && cargo test --workspace --no-fail-fast --offline",
        "source_commits": R.HOOK_COMMITS,
        "add_only": True,
    },
    "engines": [
        {"name": "kani-cbmc", "path": "kani/", "serves_properties": [p for p in claimed if R.ENGINE.get(p, "kani-cbmc") != "smt"],
         "kind_free_text": "Kani 0.68 proof harnesses (crate rfv, path deps on /repo/core and /repo/geom) bit-blasted by CBMC 6.11 and decided by CaDiCaL; driver ./check schedules harnesses, parses verdicts, replays counterexamples natively (concrete playback)"},
    ] + R.EXTRA_ENGINES,
    "checks": checks,
    "not_applicable": na,
    "notes": "All checks rebuild retrofire from /repo's working tree on every run (path dependency, fresh scratch target dirs under $TMPDIR, removed at exit). Exit 0 = held on everything explored (INCONCLUSIVE obligations are printed and recorded in evidence, never counted as discharged); exit 1 = natively reproduced violation; exit 2 = machinery failure. known_findings.json lists fixed defects (fix: commits in /repo) and open findings.",
}
json.dump(m, open(os.path.join(ROOT, "MANIFEST.json"), "w"), indent=1)
print("claimed:", claimed)
print("not applicable:", [x["property_id"] for x in na])
