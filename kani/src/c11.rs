//! C11 — Buf2 / Slice2 / MutSlice2 act as windows onto a plain 2-D array.
//!
//! Root storage: D*D symbolic bytes, root dims (W,H) symbolic <= D.  Views
//! carry no mutable metadata, so "every sequence of operations" reduces to
//! "every single operation, from every reachable view, on arbitrary
//! contents"; reachable views = every (nested) sub-rectangle.
use crate::util::*;
use re::math::point::pt2;
use re::util::buf::*;
use re::util::rect::Rect;

#[cfg(feature = "deep")]
pub const D: usize = 4;
#[cfg(not(feature = "deep"))]
pub const D: usize = 3;
const N: usize = D * D;

fn dim() -> u32 {
    let k: u32 = kani::any();
    kani::assume(k <= D as u32);
    k
}

/// symbolic sub-range [a,b) of [0,n]
fn sub(n: u32) -> (u32, u32) {
    let a: u32 = kani::any();
    let b: u32 = kani::any();
    kani::assume(a <= b && b <= n);
    (a, b)
}

fn root(data: &[u8; N], w: u32, h: u32) -> Buf2<u8> {
    Buf2::new_from((w, h), data.iter().copied())
}

// ---- rect forms ---------------------------------------------------------

/// the five range forms; returns the Rect built by the crate's own From impl
fn with_v<Hr: core::ops::RangeBounds<u32>>(hr: Hr, fv: u8, c: u32, d: u32) -> Rect<u32> {
    match fv {
        0 => Rect::from((hr, c..d)),
        1 => Rect::from((hr, c..=d)),
        2 => Rect::from((hr, ..d)),
        3 => Rect::from((hr, c..)),
        _ => Rect::from((hr, ..)),
    }
}
fn mk_rect(fh: u8, a: u32, b: u32, fv: u8, c: u32, d: u32) -> Rect<u32> {
    match fh {
        0 => with_v(a..b, fv, c, d),
        1 => with_v(a..=b, fv, c, d),
        2 => with_v(..b, fv, c, d),
        3 => with_v(a.., fv, c, d),
        _ => with_v(.., fv, c, d),
    }
}
/// what a range form means on an axis of length n: (start, end)
fn form_model(f: u8, a: u32, b: u32, n: u32) -> (u32, u32) {
    match f {
        0 => (a, b),
        1 => (a, b + 1),
        2 => (0, b),
        3 => (a, n),
        _ => (0, n),
    }
}

/// slice(rect) in every range form: accepted rects give exactly the model geometry.
#[kani::proof]
#[cfg_attr(not(feature = "deep"), kani::unwind(11))]
#[cfg_attr(feature = "deep", kani::unwind(18))]
fn c11_slice_forms() {
    let data: [u8; N] = kani::any();
    let (w, h) = (dim(), dim());
    let buf = root(&data, w, h);
    let (fh, fv): (u8, u8) = (kani::any(), kani::any());
    kani::assume(fh <= 4 && fv <= 4);
    let (a, b, c, d): (u32, u32, u32, u32) = (kani::any(), kani::any(), kani::any(), kani::any());
    kani::assume(a <= 5 && b <= 5 && c <= 5 && d <= 5);
    let (l, r) = form_model(fh, a, b, w);
    let (t, bt) = form_model(fv, c, d, h);
    kani::assume(l <= r && r <= w && t <= bt && bt <= h);
    let s = buf.slice(mk_rect(fh, a, b, fv, c, d));
    assert!(s.width() == r - l && s.height() == bt - t && s.dims() == (r - l, bt - t));
    assert!(s.stride() == w);
    assert!(s.is_empty() == (r == l || bt == t));
    let (x, y): (u32, u32) = (kani::any(), kani::any());
    if x < r - l && y < bt - t {
        assert!(s[[x, y]] == data[((t + y) * w + l + x) as usize]);
    } else {
        assert!(s.get(pt2(x, y)).is_none());
    }
    kani::cover!(fh == 1 && fv == 3 && r - l == 2, "inclusive x from");
    kani::cover!(fh == 4 && fv == 2, "full x to");
    kani::cover!(r == l && bt > t, "zero width");
    kani::cover!(bt == t && r > l, "zero height");
}

/// slice(rect) with a rect that is not inside the view: every such call panics.
#[kani::proof]
#[kani::should_panic]
#[cfg_attr(not(feature = "deep"), kani::unwind(11))]
#[cfg_attr(feature = "deep", kani::unwind(18))]
fn c11_slice_forms_reject() {
    let data: [u8; N] = kani::any();
    let (w, h) = (dim(), dim());
    let buf = root(&data, w, h);
    let (fh, fv): (u8, u8) = (kani::any(), kani::any());
    kani::assume(fh <= 4 && fv <= 4);
    let (a, b, c, d): (u32, u32, u32, u32) = (kani::any(), kani::any(), kani::any(), kani::any());
    kani::assume(a <= 5 && b <= 5 && c <= 5 && d <= 5);
    let (l, r) = form_model(fh, a, b, w);
    let (t, bt) = form_model(fv, c, d, h);
    kani::assume(!(l <= r && r <= w && t <= bt && bt <= h));
    let s = buf.slice(mk_rect(fh, a, b, fv, c, d));
    kani::cover!(true, "never: out-of-bounds slice accepted");
}

// ---- nested views -------------------------------------------------------

struct Geo { w: u32, h: u32, l: u32, t: u32, r: u32, b: u32 }

/// Iterator-heavy harnesses (rows/iter/rows_mut/iter_mut/fill_with) slice once
/// in the quick tier and twice (nested) in the thorough tier, always at 3x3.
pub const HEAVY_TWO_LEVEL: bool = cfg!(feature = "deep");
const DH: usize = 3;
const NH: usize = DH * DH;
fn dimh() -> u32 {
    let k: u32 = kani::any();
    kani::assume(k <= DH as u32);
    k
}

/// two nested symbolic rectangles; returns absolute geometry
fn nested(w: u32, h: u32) -> ((u32, u32, u32, u32), (u32, u32, u32, u32), Geo) {
    nested_n(w, h, true)
}
fn nested_n(w: u32, h: u32, two: bool) -> ((u32, u32, u32, u32), (u32, u32, u32, u32), Geo) {
    let (l1, r1) = sub(w);
    let (t1, b1) = sub(h);
    let (l2, r2) = if two { sub(r1 - l1) } else { (0, r1 - l1) };
    let (t2, b2) = if two { sub(b1 - t1) } else { (0, b1 - t1) };
    ((l1, t1, r1, b1), (l2, t2, r2, b2), Geo { w, h, l: l1 + l2, t: t1 + t2, r: l1 + r2, b: t1 + b2 })
}

/// reads through two levels of slice(): get / [[x,y]] / [y][x] / geometry.
#[kani::proof]
#[cfg_attr(not(feature = "deep"), kani::unwind(11))]
#[cfg_attr(feature = "deep", kani::unwind(18))]
fn c11_read_nested() {
    let data: [u8; N] = kani::any();
    let (w, h) = (dim(), dim());
    let buf = root(&data, w, h);
    let (o, i, g) = nested(w, h);
    let s1 = buf.slice((o.0..o.2, o.1..o.3));
    let s = s1.slice((i.0..i.2, i.1..i.3));
    let (vw, vh) = (g.r - g.l, g.b - g.t);
    assert!(s.dims() == (vw, vh) && s.stride() == w);
    assert!(s.is_contiguous() == (w == vw || vh <= 1 || vw == 0));
    let (x, y): (u32, u32) = (kani::any(), kani::any());
    if x < vw && y < vh {
        let m = data[((g.t + y) * w + g.l + x) as usize];
        assert!(s.get(pt2(x, y)) == Some(&m));
        assert!(s[[x, y]] == m);
        assert!(s[pt2(x, y)] == m);
        assert!(s[y as usize][x as usize] == m);
        assert!(s[y as usize].len() == vw as usize);
    } else {
        assert!(s.get(pt2(x, y)).is_none());
    }
    kani::cover!(vw == 1 && vh == 2 && g.l > 0 && g.t > 0 && i.0 > 0, "offset twice");
    kani::cover!(vw == 0 && vh > 0, "zero width");
    kani::cover!(vh == 0 && vw > 0, "zero height");
}

/// rows() / iter() of a (nested) view: exactly height() rows of width()
/// elements when width > 0 (at most height(), all empty, when width == 0),
/// each equal to row indexing and to the model.
#[kani::proof]
#[kani::unwind(11)]
fn c11_rows_nested() {
    let data: [u8; NH] = kani::any();
    let (w, h) = (dimh(), dimh());
    // root = raw view over a stack array (no Vec: the iterator adaptors are the cost here)
    let buf = Slice2::new((w, h), w, &data[..(w * h) as usize]);
    let (o, i, g) = nested_n(w, h, HEAVY_TWO_LEVEL);
    let s1 = buf.slice((o.0..o.2, o.1..o.3));
    let s = s1.slice((i.0..i.2, i.1..i.3));
    let (vw, vh) = (g.r - g.l, g.b - g.t);
    let mut n = 0u32;
    for row in s.rows() {
        assert!(row.len() == vw as usize);
        assert!(n < vh);
        let mut x = 0u32;
        for v in row {
            assert!(*v == data[((g.t + n) * w + g.l + x) as usize]);
            x += 1;
        }
        n += 1;
    }
    if vw > 0 { assert!(n == vh); } else { assert!(n <= vh); }
    kani::cover!(vh == 0 && vw > 0, "zero height");
    kani::cover!(vw == 0 && vh > 0, "zero width");
    kani::cover!(vw == 2 && vh == 2 && g.l > 0, "2x2 offset");
    kani::cover!(vw == 1 && vh == 3, "column");
}

/// iter() of a (nested) view: exactly width*height items in row-major order.
fn iter_body(maxw: u32, maxh: u32, two: bool) {
    let data: [u8; NH] = kani::any();
    let (w, h) = (dimh(), dimh());
    kani::assume(w <= maxw && h <= maxh);
    let buf = Slice2::new((w, h), w, &data[..(w * h) as usize]);
    let (o, i, g) = nested_n(w, h, two);
    let s1 = buf.slice((o.0..o.2, o.1..o.3));
    let s = s1.slice((i.0..i.2, i.1..i.3));
    let (vw, vh) = (g.r - g.l, g.b - g.t);
    let (mut x, mut y, mut k) = (0u32, 0u32, 0u32);
    for v in s.iter() {
        assert!(x < vw && y < vh);
        assert!(*v == data[((g.t + y) * w + g.l + x) as usize]);
        x += 1;
        if x == vw { x = 0; y += 1; }
        k += 1;
    }
    assert!(k == vw * vh);
    kani::cover!(vw == 2 && vh == 2 && g.l > 0, "2x2 offset");
    kani::cover!(vh == 0 && vw > 0, "zero height");
    kani::cover!(vw == 0 && vh > 0, "zero width");
}
#[kani::proof]
#[kani::unwind(11)]
fn c11_iter_nested() {
    iter_body(3, 3, HEAVY_TWO_LEVEL);
}
/// quick-tier size: root <= 3x2, one level
#[kani::proof]
#[kani::unwind(8)]
fn c11_iter_small() {
    iter_body(3, 2, false);
}

/// the owned buffer itself: rows()/iter()/data() and constructors.
#[kani::proof]
#[cfg_attr(not(feature = "deep"), kani::unwind(11))]
#[cfg_attr(feature = "deep", kani::unwind(18))]
fn c11_buf_ctor() {
    let data: [u8; N] = kani::any();
    let (w, h) = (dim(), dim());
    let buf = root(&data, w, h);
    assert!(buf.dims() == (w, h) && buf.stride() == w && buf.is_contiguous());
    assert!(buf.data().len() == (w * h) as usize);
    let i: usize = kani::any();
    if i < (w * h) as usize { assert!(buf.data()[i] == data[i]); }
    let mut n = 0u32;
    for row in buf.rows() { assert!(row.len() == w as usize); n += 1; }
    if w > 0 { assert!(n == h); } else { assert!(n <= h); }
    // new(): all default
    let z: Buf2<u8> = Buf2::new((w, h));
    assert!(z.dims() == (w, h) && z.data().len() == (w * h) as usize);
    if i < (w * h) as usize { assert!(z.data()[i] == 0); }
    // new_with(): init_fn sees (column, row) in row-major order
    let c = Buf2::new_with((w, h), |x, y| (x, y));
    if i < (w * h) as usize { assert!(c.data()[i] == (i as u32 % w, i as u32 / w)); }
    kani::cover!(w == D as u32 && h == D as u32, "full size");
    kani::cover!(w == 0 && h > 0, "zero width");
}

/// new_from with too few items: always panics.
#[kani::proof]
#[kani::should_panic]
#[cfg_attr(not(feature = "deep"), kani::unwind(11))]
#[cfg_attr(feature = "deep", kani::unwind(18))]
fn c11_new_from_short() {
    let data: [u8; N] = kani::any();
    let (w, h) = (dim(), dim());
    let n: usize = kani::any();
    kani::assume(n < (w * h) as usize);
    let b = Buf2::new_from((w, h), data[..n].iter().copied());
    kani::cover!(true, "never: short iterator accepted");
}

// ---- raw views: Slice2::new / MutSlice2::new with stride and surplus ----

const RAW: usize = 12;

/// Every raw view that fits its data reads the model (stride > width and
/// surplus backing data included); soundness of the constructor itself is
/// c11_raw_new_reject.
#[kani::proof]
#[kani::unwind(14)]
fn c11_raw_reads() {
    let data: [u8; RAW] = kani::any();
    let len: usize = kani::any();
    kani::assume(len <= RAW);
    let (w, h, st): (u32, u32, u32) = (kani::any(), kani::any(), kani::any());
    kani::assume(w <= 4 && h <= 4 && st <= 6);
    kani::assume(w <= st && (w == 0 || h == 0 || ((h - 1) * st + w) as usize <= len));
    let s = Slice2::new((w, h), st, &data[..len]);
    assert!(s.dims() == (w, h) && s.stride() == st);
    let (x, y): (u32, u32) = (kani::any(), kani::any());
    if x < w && y < h {
        assert!(s[[x, y]] == data[(y * st + x) as usize]);
        assert!(s[y as usize][x as usize] == data[(y * st + x) as usize]);
    } else {
        assert!(s.get(pt2(x, y)).is_none());
    }
    kani::cover!(w == 2 && h == 2 && st == 3 && len == 7, "doc example with surplus");
    kani::cover!(h == 0 && w > 0 && len > 0, "zero height over data");
}

/// Slice2::new must reject what the data cannot hold.
#[kani::proof]
#[kani::should_panic]
#[kani::unwind(14)]
fn c11_raw_new_reject() {
    let data: [u8; RAW] = kani::any();
    let len: usize = kani::any();
    kani::assume(len <= RAW);
    let (w, h, st): (u32, u32, u32) = (kani::any(), kani::any(), kani::any());
    kani::assume(w <= 4 && h <= 4 && st <= 6);
    kani::assume(w > st || (w > 0 && h > 0 && ((h - 1) * st + w) as usize > len));
    let s = Slice2::new((w, h), st, &data[..len]);
    kani::cover!(true, "never: oversized view accepted");
}

/// Slice2::new accepts every non-degenerate view that fits.
#[kani::proof]
#[kani::unwind(14)]
fn c11_raw_new_accepts() {
    let data: [u8; RAW] = kani::any();
    let len: usize = kani::any();
    kani::assume(len <= RAW);
    let (w, h, st): (u32, u32, u32) = (kani::any(), kani::any(), kani::any());
    kani::assume(w >= 1 && w <= 4 && h >= 1 && h <= 4 && st <= 6);
    kani::assume(w <= st && ((h - 1) * st + w) as usize <= len);
    let s = Slice2::new((w, h), st, &data[..len]);
    assert!(s.dims() == (w, h) && s.stride() == st);
    kani::cover!(len == RAW, "all data");
}

/// rows()/iter() on raw views with stride >= width and surplus backing data.
#[kani::proof]
#[kani::unwind(14)]
fn c11_raw_rows() {
    let data: [u8; RAW] = kani::any();
    let len: usize = kani::any();
    kani::assume(len <= RAW);
    let (w, h, st): (u32, u32, u32) = (kani::any(), kani::any(), kani::any());
    kani::assume(w <= 3 && h <= 3 && st <= 4);
    kani::assume(w <= st && (w == 0 || h == 0 || ((h - 1) * st + w) as usize <= len));
    let s = Slice2::new((w, h), st, &data[..len]);
    let mut n = 0u32;
    for row in s.rows() {
        assert!(row.len() == w as usize);
        assert!(n < h);
        let mut x = 0u32;
        for v in row { assert!(*v == data[(n * st + x) as usize]); x += 1; }
        n += 1;
    }
    if w > 0 { assert!(n == h); } else { assert!(n <= h); }
    kani::cover!(w == 2 && h == 2 && st == 3 && len == 7, "doc example with surplus");
    kani::cover!(h == 0 && w > 0 && len >= 1, "zero height over data");
    kani::cover!(w == 0 && st == 0 && h > 0, "stride zero");
    kani::cover!(st == w && w > 0 && len > (w * h) as usize, "contiguous with surplus");
}

/// fill() / fill_with() on raw mutable views: exactly the addressed cells change.
#[kani::proof]
#[kani::unwind(14)]
fn c11_raw_fill() {
    let mut data: [u8; RAW] = kani::any();
    let old = data;
    let len: usize = kani::any();
    kani::assume(len <= RAW);
    let (w, h, st): (u32, u32, u32) = (kani::any(), kani::any(), kani::any());
    kani::assume(w <= 3 && h <= 3 && st <= 4);
    kani::assume(w <= st && (w == 0 || h == 0 || ((h - 1) * st + w) as usize <= len));
    let v: u8 = kani::any();
    let with: bool = kani::any();
    {
        let mut s = MutSlice2::new((w, h), st, &mut data[..len]);
        if with { s.fill_with(|x, y| v.wrapping_add((x + 4 * y) as u8)); } else { s.fill(v); }
    }
    let i: usize = kani::any();
    kani::assume(i < RAW);
    let inside = st > 0 && (i as u32 % st) < w && (i as u32 / st) < h;
    if inside {
        let (x, y) = (i as u32 % st, i as u32 / st);
        let want = if with { v.wrapping_add((x + 4 * y) as u8) } else { v };
        assert!(data[i] == want);
    } else {
        assert!(data[i] == old[i]);
    }
    kani::cover!(w == 2 && h == 2 && st == 3 && len == 7, "doc example with surplus");
    kani::cover!(st == w && w > 0 && h > 0 && len > (w * h) as usize, "contiguous with surplus");
    kani::cover!(h == 1 && w > 0 && len > w as usize, "single row with surplus");
    kani::cover!(h == 0 && w > 0 && len > 0, "zero height over data");
}

// ---- out-of-bounds access panics ---------------------------------------

#[kani::proof]
#[kani::should_panic]
#[cfg_attr(not(feature = "deep"), kani::unwind(11))]
#[cfg_attr(feature = "deep", kani::unwind(18))]
fn c11_oob_point_panics() {
    let data: [u8; N] = kani::any();
    let (w, h) = (dim(), dim());
    let buf = root(&data, w, h);
    let (l, r) = sub(w);
    let (t, b) = sub(h);
    let s = buf.slice((l..r, t..b));
    let (x, y): (u32, u32) = (kani::any(), kani::any());
    kani::assume(x >= r - l || y >= b - t);
    let v = s[[x, y]];
    kani::cover!(true, "never: out-of-bounds point read");
}

#[kani::proof]
#[kani::should_panic]
#[cfg_attr(not(feature = "deep"), kani::unwind(11))]
#[cfg_attr(feature = "deep", kani::unwind(18))]
fn c11_oob_row_panics() {
    let data: [u8; N] = kani::any();
    let (w, h) = (dim(), dim());
    let buf = root(&data, w, h);
    let (l, r) = sub(w);
    let (t, b) = sub(h);
    let s = buf.slice((l..r, t..b));
    let y: usize = kani::any();
    kani::assume(y >= (b - t) as usize);
    let n = s[y].len();
    kani::cover!(true, "never: out-of-bounds row read");
}

#[kani::proof]
#[kani::should_panic]
#[cfg_attr(not(feature = "deep"), kani::unwind(11))]
#[cfg_attr(feature = "deep", kani::unwind(18))]
fn c11_oob_write_panics() {
    let data: [u8; N] = kani::any();
    let (w, h) = (dim(), dim());
    let mut buf = root(&data, w, h);
    let (l, r) = sub(w);
    let (t, b) = sub(h);
    let mut s = buf.slice_mut((l..r, t..b));
    let by_row: bool = kani::any();
    if by_row {
        let y: usize = kani::any();
        kani::assume(y >= (b - t) as usize);
        let n = s[y].len();
    } else {
        let (x, y): (u32, u32) = (kani::any(), kani::any());
        kani::assume(x >= r - l || y >= b - t);
        s[[x, y]] = 1;
    }
    kani::cover!(true, "never: out-of-bounds write");
}

// ---- writes -------------------------------------------------------------

/// after `op` on the nested mutable view, root storage == model
fn check_root(buf: &Buf2<u8>, old: &[u8; N], g: &Geo, newval: impl Fn(u32, u32) -> u8, touched: impl Fn(u32, u32) -> bool) {
    let i: usize = kani::any();
    kani::assume(i < (g.w * g.h) as usize);
    let (ax, ay) = (i as u32 % g.w, i as u32 / g.w);
    let inside = ax >= g.l && ax < g.r && ay >= g.t && ay < g.b;
    if inside && touched(ax - g.l, ay - g.t) {
        assert!(buf.data()[i] == newval(ax - g.l, ay - g.t));
    } else {
        assert!(buf.data()[i] == old[i]);
    }
    assert!(buf.data().len() == (g.w * g.h) as usize);
}

macro_rules! write_harness {
    ($name:ident, |$s:ident, $vw:ident, $vh:ident, $v:ident, $px:ident, $py:ident| $op:block, $newval:expr, $touched:expr, $($cov:tt)*) => {
        #[kani::proof]
        #[cfg_attr(not(feature = "deep"), kani::unwind(11))]
        #[cfg_attr(feature = "deep", kani::unwind(18))]
        fn $name() {
            let data: [u8; N] = kani::any();
            let (w, h) = (dim(), dim());
            let mut buf = root(&data, w, h);
            let (o, i, g) = nested(w, h);
            let ($vw, $vh) = (g.r - g.l, g.b - g.t);
            let $v: u8 = kani::any();
            let ($px, $py): (u32, u32) = (kani::any(), kani::any());
            {
                let mut s1 = buf.slice_mut((o.0..o.2, o.1..o.3));
                let mut $s = s1.slice_mut((i.0..i.2, i.1..i.3));
                assert!($s.dims() == ($vw, $vh));
                $op
            }
            check_root(&buf, &data, &g, $newval, $touched);
            kani::cover!($vw >= 1 && $vh == 2 && g.l > 0 && g.t > 0 && i.0 > 0, "offset twice");
            kani::cover!($vh == 1 && $vw > 0 && $vw < w, "one row, narrower than root");
            $($cov)*
        }
    };
}


/// same as write_harness!, but the root is a raw MutSlice2 over a stack array
/// (the iterator-based operations do not come back with a Vec-backed root)
macro_rules! write_harness_arr {
    ($name:ident, |$s:ident, $vw:ident, $vh:ident, $v:ident| $op:block, $newval:expr, $($cov:tt)*) => {
        #[kani::proof]
        #[kani::unwind(11)]
        fn $name() {
            let mut data: [u8; NH] = kani::any();
            let old = data;
            let (w, h) = (dimh(), dimh());
            let (o, i, g) = nested_n(w, h, HEAVY_TWO_LEVEL);
            let ($vw, $vh) = (g.r - g.l, g.b - g.t);
            let $v: u8 = kani::any();
            {
                let mut buf = MutSlice2::new((w, h), w, &mut data[..(w * h) as usize]);
                let mut s1 = buf.slice_mut((o.0..o.2, o.1..o.3));
                let mut $s = s1.slice_mut((i.0..i.2, i.1..i.3));
                assert!($s.dims() == ($vw, $vh));
                $op
            }
            let k: usize = kani::any();
            kani::assume(k < NH);
            let (ax, ay) = if w > 0 { (k as u32 % w, k as u32 / w) } else { (0, u32::MAX) };
            let inside = k < (w * h) as usize && ax >= g.l && ax < g.r && ay >= g.t && ay < g.b;
            if inside {
                let f = $newval;
                assert!(data[k] == f(ax - g.l, ay - g.t));
            } else {
                assert!(data[k] == old[k]);
            }
            kani::cover!($vw >= 1 && $vh == 2 && g.l > 0 && g.t > 0, "offset view");
            kani::cover!($vh == 1 && $vw > 0 && $vw < w, "one row, narrower than root");
            kani::cover!($vh == 0 && $vw > 0, "zero height");
            $($cov)*
        }
    };
}

write_harness!(c11_write_point, |s, vw, vh, v, px, py| {
    kani::assume(px < vw && py < vh);
    s[[px, py]] = v;
}, |_, _| v, |x, y| x == px && y == py, );

write_harness!(c11_write_row_index, |s, vw, vh, v, px, py| {
    kani::assume(px < vw && py < vh);
    s[py as usize][px as usize] = v;
}, |_, _| v, |x, y| x == px && y == py, );

write_harness!(c11_write_get_mut, |s, vw, vh, v, px, py| {
    match s.get_mut(pt2(px, py)) {
        Some(c) => { assert!(px < vw && py < vh); *c = v; }
        None => { assert!(!(px < vw && py < vh)); }
    }
}, |_, _| v, |x, y| x == px && y == py, );

write_harness!(c11_write_fill, |s, vw, vh, v, px, py| {
    s.fill(v);
}, |_, _| v, |_, _| true,
    kani::cover!(vh == 0 && vw > 0, "zero height");
);

write_harness_arr!(c11_write_fill_with, |s, vw, vh, v| {
    s.fill_with(|x, y| v.wrapping_add((x + 4 * y) as u8));
}, |x, y| v.wrapping_add((x + 4 * y) as u8),
);

write_harness_arr!(c11_write_rows_mut, |s, vw, vh, v| {
    let mut n = 0u32;
    for row in s.rows_mut() {
        assert!(row.len() == vw as usize && n < vh);
        let mut x = 0u32;
        for c in row { *c = v.wrapping_add((x + 4 * n) as u8); x += 1; }
        n += 1;
    }
    if vw > 0 { assert!(n == vh); }
}, |x, y| v.wrapping_add((x + 4 * y) as u8),
);

write_harness_arr!(c11_write_iter_mut, |s, vw, vh, v| {
    let mut k = 0u32;
    for c in s.iter_mut() {
        assert!(k < vw * vh);
        *c = v.wrapping_add((k % vw + 4 * (k / vw)) as u8);
        k += 1;
    }
    assert!(k == vw * vh);
}, |x, y| v.wrapping_add((x + 4 * y) as u8), );

/// copy_from: dims must match (else panic); copies a strided source view.
#[kani::proof]
#[cfg_attr(not(feature = "deep"), kani::unwind(11))]
#[cfg_attr(feature = "deep", kani::unwind(18))]
fn c11_write_copy_from() {
    let data: [u8; N] = kani::any();
    let src_data: [u8; N] = kani::any();
    let (w, h) = (dim(), dim());
    let mut buf = root(&data, w, h);
    let src = Buf2::new_from((D as u32, D as u32), src_data.iter().copied());
    let (o, i, g) = nested(w, h);
    let (vw, vh) = (g.r - g.l, g.b - g.t);
    let (sl, st): (u32, u32) = (kani::any(), kani::any());
    kani::assume(sl <= D as u32 && st <= D as u32 && sl + vw <= D as u32 && st + vh <= D as u32);
    {
        let mut s1 = buf.slice_mut((o.0..o.2, o.1..o.3));
        let mut s = s1.slice_mut((i.0..i.2, i.1..i.3));
        s.copy_from(src.slice((sl..sl + vw, st..st + vh)));
    }
    check_root(&buf, &data, &g, |x, y| src_data[((st + y) * D as u32 + sl + x) as usize], |_, _| true);
    kani::cover!(vw == 2 && vh == 2 && sl > 0 && g.l > 0, "2x2 strided both sides");
    kani::cover!(vh == 0 && vw > 0, "zero height");
}

#[kani::proof]
#[kani::should_panic]
#[cfg_attr(not(feature = "deep"), kani::unwind(11))]
#[cfg_attr(feature = "deep", kani::unwind(18))]
fn c11_copy_from_mismatch_panics() {
    let data: [u8; N] = kani::any();
    let (w, h) = (dim(), dim());
    let mut buf = root(&data, w, h);
    let src = Buf2::<u8>::new((D as u32, D as u32));
    let (l, r) = sub(w);
    let (t, b) = sub(h);
    let (sw, sh): (u32, u32) = (kani::any(), kani::any());
    kani::assume(sw <= D as u32 && sh <= D as u32 && (sw, sh) != (r - l, b - t));
    buf.slice_mut((l..r, t..b)).copy_from(src.slice((0..sw, 0..sh)));
    kani::cover!(true, "never: mismatched copy accepted");
}
