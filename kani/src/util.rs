//! helpers shared by the harness modules

/// symbolic integer in [lo, hi]
pub fn int(lo: i32, hi: i32) -> i32 {
    let k: i32 = kani::any();
    kani::assume(k >= lo && k <= hi);
    k
}

/// a float whose bits are symbolic to the solver but pinned by an assumption
/// (keeps CBMC's constant folder out of the way when validating a model)
pub fn pinned(bits: u32) -> f32 {
    let b: u32 = kani::any();
    kani::assume(b == bits);
    f32::from_bits(b)
}

pub const TWO23: f32 = 8388608.0;
pub const TWO31: f32 = 2147483648.0;
