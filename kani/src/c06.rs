//! C06 — hidden-surface removal is independent of submission order
//! (decided at the write step: Framebuf::rasterize + Context::depth_test),
//! C07 — write masks, discard and Throughput at the same unit,
//! C02 P3 — rasterize touches only row y, columns xs.
use crate::util::*;
use core::cell::Cell;
use core::cmp::Ordering;
use re::math::color::{rgba, Color4};
use re::math::point::pt3;
use re::math::vary::Iter as VIter;
use re::math::vec::vec3;
use re::render::raster::{Frag, Scanline};
use re::render::stats::{Stats, Throughput};
use re::render::{Context, Framebuf, Screen, Target};
use re::util::buf::{AsMutSlice2, Buf2, MutSlice2};

/// row width: 2 pixels in the quick tier, 3 in the thorough tier
#[cfg(feature = "deep")]
pub const W: usize = 3;
#[cfg(not(feature = "deep"))]
pub const W: usize = 2;

/// an arbitrary scanline on row y: n fragments from column x0, reciprocal
/// depth z0 + i*dz, attribute a0 + i*da
pub fn scanline(y: usize, x0: usize, n: usize, z0: f32, dz: f32, a0: f32, da: f32) -> Scanline<f32> {
    Scanline {
        y,
        xs: x0..x0 + n,
        vs: VIter {
            val: (pt3(x0 as f32 + 0.5, y as f32 + 0.5, z0), a0),
            step: (vec3::<f32, Screen>(1.0, 0.0, dz), da),
            n: Some(n as u32),
        },
    }
}

#[derive(Copy, Clone)]
pub struct Span { pub x0: usize, pub n: usize, pub z0: f32, pub dz: f32, pub col: u8 }

pub fn any_span() -> Span {
    let x0: usize = kani::any();
    let n: usize = kani::any();
    kani::assume(x0 <= W && n <= W && x0 + n <= W);
    let z0: f32 = kani::any();
    let dz: f32 = kani::any();
    kani::assume(z0 > 0.001 && z0 < 1000.0 && dz > -10.0 && dz < 10.0);
    let col: u8 = kani::any();
    Span { x0, n, z0, dz, col }
}

/// reciprocal depth of fragment i of the span, exactly as the iterator steps it
fn z_at(s: &Span, i: usize) -> f32 {
    let mut z = s.z0;
    let mut k = 0;
    while k < i { z = z + s.dz; k += 1; }
    z
}

fn draw(fb: &mut Framebuf<Buf2<u32>, Buf2<f32>>, s: &Span, ctx: &Context) -> Throughput {
    let c = s.col;
    let fs = move |_f: Frag<f32>| rgba(c, 0, 0, 255);
    fb.rasterize(scanline(0, s.x0, s.n, s.z0, s.dz, 1.0, 0.0), &fs, ctx)
}

fn fresh() -> Framebuf<Buf2<u32>, Buf2<f32>> {
    Framebuf { color_buf: Buf2::<u32>::new((W as u32, 1)), depth_buf: Buf2::<f32>::new_with((W as u32, 1), |_, _| 0.0) }
}

/// D1a (relational): two arbitrary overlapping spans, arbitrary float depth
/// start/step: A;B and B;A give identical depth buffers, and identical colour
/// buffers unless some pixel has an exact depth tie.
#[kani::proof]
#[kani::unwind(5)]
fn c06_two_spans_commute() {
    let (a, b) = (any_span(), any_span());
    let ctx = Context::default();
    let mut f1 = fresh();
    draw(&mut f1, &a, &ctx);
    draw(&mut f1, &b, &ctx);
    let mut f2 = fresh();
    draw(&mut f2, &b, &ctx);
    draw(&mut f2, &a, &ctx);
    let mut overlap = false;
    for x in 0..W {
        let ia = x >= a.x0 && x < a.x0 + a.n;
        let ib = x >= b.x0 && x < b.x0 + b.n;
        let (d1, d2) = (f1.depth_buf[[x as u32, 0]], f2.depth_buf[[x as u32, 0]]);
        let (c1, c2) = (f1.color_buf[[x as u32, 0]], f2.color_buf[[x as u32, 0]]);
        assert!(d1 == d2 && !d1.is_nan());
        let tie = ia && ib && z_at(&a, x - a.x0) == z_at(&b, x - b.x0);
        if !tie { assert!(c1 == c2); }
        if ia && ib { overlap = true; }
    }
    kani::cover!(overlap, "spans overlap");
    kani::cover!(a.n == W && b.n == W && a.dz > 0.0 && b.dz < 0.0, "interpenetrating full spans");
}

/// D1b: after drawing two spans every pixel holds the larger reciprocal depth
/// among the fragments covering it (and the cleared value 0), with that
/// fragment's colour; a fragment that fails the test writes neither.
#[kani::proof]
#[kani::unwind(5)]
fn c06_nearest_wins() {
    let (a, b) = (any_span(), any_span());
    let ctx = Context::default();
    let mut f1 = fresh();
    draw(&mut f1, &a, &ctx);
    draw(&mut f1, &b, &ctx);
    let x: usize = kani::any();
    kani::assume(x < W);
    let ia = x >= a.x0 && x < a.x0 + a.n;
    let ib = x >= b.x0 && x < b.x0 + b.n;
    let za = if ia { z_at(&a, x - a.x0) } else { 0.0 };
    let zb = if ib { z_at(&b, x - b.x0) } else { 0.0 };
    // exact depth ties are outside the property: which fragment wins them is unspecified
    kani::assume(!(ia && ib && za == zb));
    let (d, c) = (f1.depth_buf[[x as u32, 0]], f1.color_buf[[x as u32, 0]]);
    let (ca, cb) = (rgba(a.col, 0, 0, 255).to_argb_u32(), rgba(b.col, 0, 0, 255).to_argb_u32());
    if ia && za > 0.0 && !(ib && zb > za) { assert!(d == za && c == ca); }
    if ib && zb > 0.0 && zb > (if ia { za } else { 0.0 }) { assert!(d == zb && c == cb); }
    if !(ia && za > 0.0) && !(ib && zb > 0.0) { assert!(d == 0.0 && c == 0); }
    kani::cover!(ia && ib && zb > za && za > 0.0, "second span nearer");
    kani::cover!(ia && ib && zb < za, "second span hidden");
}

/// D4: Context::depth_test for every Option<Ordering> and every pair of
/// floats incl. NaN / inf.
#[kani::proof]
fn c06_depth_test_semantics() {
    let new: f32 = kani::any();
    let curr: f32 = kani::any();
    let which: u8 = kani::any();
    kani::assume(which < 4);
    let mut ctx = Context::default();
    ctx.depth_test = match which { 0 => None, 1 => Some(Ordering::Less), 2 => Some(Ordering::Equal), _ => Some(Ordering::Greater) };
    let r = ctx.depth_test(new, curr);
    match which {
        0 => assert!(r),
        // reciprocal depth: larger is nearer; "Less" = new fragment nearer than the stored one
        1 => assert!(r == (new > curr)),
        2 => assert!(r == (new == curr)),
        _ => assert!(r == (new < curr)),
    }
    // the default is Some(Less)
    assert!(Context::default().depth_test == Some(Ordering::Less));
    kani::cover!(new.is_nan() && which == 1, "nan never passes Less");
    kani::cover!(which == 0 && new.is_nan(), "None passes nan");
}

/// C02 P3 + C07 M1 on the Framebuf target: arbitrary scanline (start > end
/// allowed) on a symbolic row of a W x 2 buffer, symbolic flags and depth
/// predicate, discarding shader with a per-column mask, invocation counter.
#[kani::proof]
#[kani::unwind(8)]
fn c07_framebuf_flags() {
    let s = any_span();
    let y: usize = kani::any();
    kani::assume(y < 2);
    let inverted: bool = kani::any(); // xs.start > xs.end: must behave as empty
    let mut ctx = Context::default();
    ctx.color_write = kani::any();
    ctx.depth_write = kani::any();
    let which: u8 = kani::any();
    kani::assume(which < 4);
    ctx.depth_test = match which { 0 => None, 1 => Some(Ordering::Less), 2 => Some(Ordering::Equal), _ => Some(Ordering::Greater) };
    let discard: [bool; W] = kani::any();
    let old_c: [u32; 2 * W] = kani::any();
    let old_z: [f32; 2 * W] = kani::any();
    kani::assume(old_z.iter().all(|z| !z.is_nan()));
    let mut fb = Framebuf {
        color_buf: Buf2::new_from((W as u32, 2), old_c.iter().copied()),
        depth_buf: Buf2::new_from((W as u32, 2), old_z.iter().copied()),
    };
    let calls = Cell::new(0usize);
    let fs = |f: Frag<f32>| -> Option<Color4> {
        calls.set(calls.get() + 1);
        let x = f.pos.x() as usize;
        if discard[x] { None } else { Some(rgba(s.col, 1, 2, 3)) }
    };
    let mut sl = scanline(y, s.x0, s.n, s.z0, s.dz, 1.0, 0.0);
    if inverted { sl.xs = s.x0 + s.n..s.x0; }
    let io = fb.rasterize(sl, &fs, &ctx);
    let n = if inverted { 0 } else { s.n };
    assert!(io.i == n);
    let (mut wrote, mut passed) = (0usize, 0usize);
    for yy in 0..2usize {
        for x in 0..W {
            let i = yy * W + x;
            let (c, z) = (fb.color_buf[[x as u32, yy as u32]], fb.depth_buf[[x as u32, yy as u32]]);
            let covered = yy == y && x >= s.x0 && x < s.x0 + n;
            if !covered {
                assert!(c == old_c[i] && z.to_bits() == old_z[i].to_bits());
                continue;
            }
            let new_z = z_at(&s, x - s.x0);
            let pass = match which { 0 => true, 1 => new_z > old_z[i], 2 => new_z == old_z[i], _ => new_z < old_z[i] };
            if pass { passed += 1; }
            let write = pass && !discard[x];
            if write && ctx.color_write { wrote += 1; assert!(c == rgba(s.col, 1, 2, 3).to_argb_u32()); } else { assert!(c == old_c[i]); }
            if write && ctx.depth_write { assert!(z == new_z); } else { assert!(z.to_bits() == old_z[i].to_bits()); }
            assert!(!z.is_nan());
        }
    }
    assert!(io.o == wrote);
    assert!(calls.get() == passed); // shader invoked exactly once per fragment that passes the test
    kani::cover!(n == W && passed == W && wrote == W - 1 && ctx.color_write, "all pass the test, one discarded");
    kani::cover!(n == W && passed == W - 1, "one fails the test");
    kani::cover!(!ctx.color_write && ctx.depth_write && passed > 0, "depth-only pass");
    kani::cover!(inverted && s.n > 0, "inverted range");
}

/// the colour-only target (any AsMutSlice2<u32>): ignores depth flags and the
/// depth predicate; otherwise as above.  Target = a strided sub-view of a
/// larger buffer at a symbolic offset (viewport inside a frame).
#[kani::proof]
#[kani::unwind(14)]
fn c07_colorbuf_flags() {
    let s = any_span();
    let y: usize = kani::any();
    kani::assume(y < 2);
    let mut ctx = Context::default();
    ctx.color_write = kani::any();
    ctx.depth_write = kani::any();
    ctx.depth_test = if kani::any() { None } else { Some(Ordering::Greater) };
    let discard: [bool; W] = kani::any();
    const BW: usize = W + 1;
    let old_c: [u32; 3 * BW] = kani::any();
    let mut big = Buf2::new_from((BW as u32, 3), old_c.iter().copied());
    let (ox, oy): (u32, u32) = (kani::any(), kani::any());
    kani::assume(ox <= 1 && oy <= 1);
    let calls = Cell::new(0usize);
    let fs = |f: Frag<f32>| -> Option<Color4> {
        calls.set(calls.get() + 1);
        if discard[f.pos.x() as usize] { None } else { Some(rgba(s.col, 1, 2, 3)) }
    };
    let io = {
        let mut view = big.slice_mut((ox..ox + W as u32, oy..oy + 2));
        view.rasterize(scanline(y, s.x0, s.n, s.z0, s.dz, 1.0, 0.0), &fs, &ctx)
    };
    assert!(io.i == s.n && calls.get() == s.n);
    let mut wrote = 0usize;
    for yy in 0..3usize {
        for x in 0..BW {
            let i = yy * BW + x;
            let c = big[[x as u32, yy as u32]];
            let (vx, vy) = (x.wrapping_sub(ox as usize), yy.wrapping_sub(oy as usize));
            let covered = vy == y && vx >= s.x0 && vx < s.x0 + s.n;
            if covered && !discard[vx] && ctx.color_write { wrote += 1; assert!(c == rgba(s.col, 1, 2, 3).to_argb_u32()); } else { assert!(c == old_c[i]); }
        }
    }
    assert!(io.o == wrote);
    kani::cover!(ox == 1 && oy == 1 && s.n == W && wrote == W - 1, "offset view, one discard");
}

/// M4: Stats += Stats adds every counter component-wise; Throughput likewise.
#[kani::proof]
#[kani::unwind(18)]
fn c07_stats_add() {
    let mut a = Stats::new();
    let mut b = Stats::new();
    let v: [usize; 16] = kani::any();
    kani::assume(v.iter().all(|x| *x < (1 << 31)));
    a.prims = Throughput { i: v[0], o: v[1] };
    a.verts = Throughput { i: v[2], o: v[3] };
    a.frags = Throughput { i: v[4], o: v[5] };
    b.prims = Throughput { i: v[6], o: v[7] };
    b.verts = Throughput { i: v[8], o: v[9] };
    b.frags = Throughput { i: v[10], o: v[11] };
    a.calls = 1.0; b.calls = 2.0; a.frames = 1.0; b.frames = 0.0;
    a += b;
    assert!(a.prims.i == v[0] + v[6] && a.prims.o == v[1] + v[7]);
    assert!(a.verts.i == v[2] + v[8] && a.verts.o == v[3] + v[9]);
    assert!(a.frags.i == v[4] + v[10] && a.frags.o == v[5] + v[11]);
    assert!(a.calls == 3.0 && a.frames == 1.0);
    let mut t = Throughput { i: v[12], o: v[13] };
    t += Throughput { i: v[14], o: v[15] };
    assert!(t.i == v[12] + v[14] && t.o == v[13] + v[15]);
    kani::cover!(v[0] > 1000 && v[7] > 1000, "large counts");
}
