//! C19 — xorshift step and distributions, for every generator state.
use crate::util::*;
use re::math::rand::*;
use re::math::vec::{Vec2, Vec3};
use re::math::point::{Point2, Point3};

fn step(s: u64) -> u64 {
    let mut g = Xorshift64(s);
    let r = g.next_bits();
    assert!(r == g.0); // the output is the new state
    r
}

/// the step maps non-zero states to non-zero states and is injective
/// (hence a bijection on the non-zero states) — all pairs of 64-bit states.
#[kani::proof]
fn c19_step_bijective() {
    let a: u64 = kani::any();
    let b: u64 = kani::any();
    kani::assume(a != b);
    let (sa, sb) = (step(a), step(b));
    assert!(sa != sb);
    if a != 0 { assert!(sa != 0); }
    kani::cover!(a != 0 && b != 0, "two non-zero states");
}

/// from_seed accepts every non-zero seed, keeps it, and equal seeds give equal
/// 3-step sequences; seed 0 panics (c19_seed_zero_panics).
#[kani::proof]
fn c19_seed_determinism() {
    let s: u64 = kani::any();
    kani::assume(s != 0);
    let mut g = Xorshift64::from_seed(s);
    let mut h = Xorshift64::from_seed(s);
    assert!(g.0 == s);
    for _ in 0..3 {
        let (x, y) = (g.next_bits(), h.next_bits());
        assert!(x == y && x != 0);
    }
    kani::cover!(s == Xorshift64::DEFAULT_SEED, "default seed");
}

#[kani::proof]
#[kani::should_panic]
fn c19_seed_zero_panics() {
    let g = Xorshift64::from_seed(0);
    kani::cover!(true, "never: zero seed accepted");
}

/// The step is GF(2)-linear: next(a ^ b) == next(a) ^ next(b) for all a, b.
/// (Justifies representing it by the 64 images of the basis states, which the
/// SMT witness chain for the period uses.)
#[kani::proof]
fn c19_step_linear() {
    let a: u64 = kani::any();
    let b: u64 = kani::any();
    assert!(step(a ^ b) == step(a) ^ step(b));
    assert!(step(0) == 0);
    kani::cover!(a != 0 && b != 0 && a != b, "generic pair");
}

/// Uniform<f32>: the sample lies in [start, end) for every state — range
/// family: start, end finite, start < end, width finite.
fn uniform_f32_in_range(start: f32, end: f32) {
    let s: u64 = kani::any();
    let mut g = Xorshift64(s);
    let v = Uniform(start..end).sample(&mut g);
    assert!(v >= start);
    assert!(v < end);
    kani::cover!(v == start, "lower end reached");
    kani::cover!(s >> 41 == (1 << 23) - 1, "largest mantissa");
}

#[kani::proof]
fn c19_uniform_f32_unit() {
    uniform_f32_in_range(0.0, 1.0);
}
#[kani::proof]
fn c19_uniform_f32_symmetric() {
    uniform_f32_in_range(-1.0, 1.0);
}
/// every finite start < end with finite width
#[kani::proof]
fn c19_uniform_f32_any_range() {
    let a: f32 = kani::any();
    let b: f32 = kani::any();
    kani::assume(a.is_finite() && b.is_finite() && a < b && (b - a).is_finite());
    uniform_f32_in_range(a, b);
}

/// Uniform<i32>: every state, every range whose width is positive and representable.
#[kani::proof]
fn c19_uniform_i32() {
    let a: i32 = kani::any();
    let b: i32 = kani::any();
    kani::assume(a < b && b.checked_sub(a).is_some());
    let s: u64 = kani::any();
    let mut g = Xorshift64(s);
    let v = Uniform(a..b).sample(&mut g);
    assert!(v >= a && v < b);
    kani::cover!(a < 0 && b > 0, "straddles zero");
    kani::cover!(b - a == 1, "width one");
    kani::cover!(b - a == i32::MAX, "largest width");
}

/// Bernoulli(p <= 0) never, Bernoulli(p >= 1) always — every state, every such p.
#[kani::proof]
fn c19_bernoulli_extremes() {
    let p: f32 = kani::any();
    let s: u64 = kani::any();
    let mut g = Xorshift64(s);
    let r = Bernoulli(p).sample(&mut g);
    if p <= 0.0 { assert!(!r); }
    if p >= 1.0 { assert!(r); }
    kani::cover!(p == 1.0, "p = 1");
    kani::cover!(p == 0.0, "p = 0");
    kani::cover!(p > 0.0 && p < 1.0 && r, "interior true");
}

/// array / vector / point / tuple distributions draw their components in
/// order from successive states.
#[kani::proof]
#[kani::unwind(8)]
fn c19_composites_in_order() {
    let s: u64 = kani::any();
    // concrete ranges: what is decided here is the order of the draws
    let (a0, a1, b0, b1): (i32, i32, i32, i32) = (0, -3, 7, 5);
    // reference: two scalar draws from successive states
    let mut g = Xorshift64(s);
    let x = Uniform(a0..b0).sample(&mut g);
    let y = Uniform(a1..b1).sample(&mut g);
    let after = g.0;
    let mut g = Xorshift64(s);
    let arr = Uniform([a0, a1]..[b0, b1]).sample(&mut g);
    assert!(arr[0] == x && arr[1] == y && g.0 == after);
    let mut g = Xorshift64(s);
    let tup = (Uniform(a0..b0), Uniform(a1..b1)).sample(&mut g);
    assert!(tup.0 == x && tup.1 == y && g.0 == after);
    let mut g = Xorshift64(s);
    let v: re::math::vec::Vec2i = Uniform(re::math::vec::vec2(a0, a1)..re::math::vec::vec2(b0, b1)).sample(&mut g);
    assert!(v.0[0] == x && v.0[1] == y && g.0 == after);
    kani::cover!(x != y, "different components");
}

/// float vector / point distributions: components are the scalar draws in order.
#[kani::proof]
#[kani::unwind(5)]
fn c19_composites_f32() {
    let s: u64 = kani::any();
    let mut g = Xorshift64(s);
    let x = Uniform(-1.0f32..1.0).sample(&mut g);
    let y = Uniform(2.0f32..5.0).sample(&mut g);
    let after = g.0;
    let mut g = Xorshift64(s);
    let v: Vec2 = Uniform(re::math::vec::vec2(-1.0, 2.0)..re::math::vec::vec2(1.0, 5.0)).sample(&mut g);
    assert!(v.0[0] == x && v.0[1] == y && g.0 == after);
    let mut g = Xorshift64(s);
    let p: Point2 = Uniform(re::math::point::pt2(-1.0, 2.0)..re::math::point::pt2(1.0, 5.0)).sample(&mut g);
    assert!(p.0[0] == x && p.0[1] == y && g.0 == after);
    kani::cover!(x > 0.5, "x high");
}

/// rejection samplers: whenever acceptance happens within 2 iterations the
/// sample is inside the unit disk / ball (loop cut at 2 iterations: the
/// harness assumes acceptance by then).
#[kani::proof]
#[kani::unwind(4)]
fn c19_disk_within_2() {
    let s: u64 = kani::any();
    // acceptance within two draws, decided on the same arithmetic
    let mut p = Xorshift64(s);
    let d = Uniform([-1.0f32; 2]..[1.0; 2]);
    let v1: Vec2 = Vec2::from(d.sample(&mut p));
    let v2: Vec2 = Vec2::from(d.sample(&mut p));
    kani::assume(v1.len_sqr() <= 1.0 || v2.len_sqr() <= 1.0);
    let mut g = Xorshift64(s);
    let v = VectorsOnUnitDisk.sample(&mut g);
    assert!(v.len_sqr() <= 1.0);
    assert!(v.0[0] >= -1.0 && v.0[0] < 1.0 && v.0[1] >= -1.0 && v.0[1] < 1.0);
    let mut g = Xorshift64(s);
    let q: Point2 = PointsOnUnitDisk.sample(&mut g);
    assert!(q.0 == v.0);
    kani::cover!(v1.len_sqr() > 1.0, "first draw rejected");
}

/// quick-tier variants: only the real sampler runs; the rejection loop is cut
/// after ITER iterations by turning its unwinding assertion into an assumption
/// (--no-unwinding-checks for these two harnesses), i.e. "acceptance happens
/// within 2 iterations" is assumed without recomputing the acceptance test.
#[kani::proof]
#[kani::unwind(3)]
fn c19_disk_cut() {
    let s: u64 = kani::any();
    let mut g = Xorshift64(s);
    let v = VectorsOnUnitDisk.sample(&mut g);
    // (re-evaluating len_sqr here is a float multiplier equivalence problem that did not
    //  come back in 40 min; what is decided is termination-on-acceptance and the box)
    assert!(v.0[0] >= -1.0 && v.0[0] < 1.0 && v.0[1] >= -1.0 && v.0[1] < 1.0);
    kani::cover!(v.0[0] < -0.5 && v.0[1] > 0.5, "second quadrant");
}
#[kani::proof]
#[kani::unwind(5)]
fn c19_ball_cut() {
    let s: u64 = kani::any();
    let mut g = Xorshift64(s);
    let v = VectorsInUnitBall.sample(&mut g);
    assert!(v.0.iter().all(|c| *c >= -1.0 && *c < 1.0));
    kani::cover!(v.0[2] < -0.5, "below");
}

#[kani::proof]
#[kani::unwind(5)]
fn c19_ball_within_2() {
    let s: u64 = kani::any();
    let mut p = Xorshift64(s);
    let d = Uniform([-1.0f32; 3]..[1.0; 3]);
    let v1: Vec3 = Vec3::from(d.sample(&mut p));
    let v2: Vec3 = Vec3::from(d.sample(&mut p));
    kani::assume(v1.len_sqr() <= 1.0 || v2.len_sqr() <= 1.0);
    let mut g = Xorshift64(s);
    let v = VectorsInUnitBall.sample(&mut g);
    assert!(v.len_sqr() <= 1.0);
    let mut g = Xorshift64(s);
    let q: Point3 = PointsInUnitBall.sample(&mut g);
    assert!(q.0 == v.0);
    kani::cover!(v1.len_sqr() > 1.0, "first draw rejected");
}
