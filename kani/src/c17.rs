//! C17 — cubic Bezier curves and splines.
use crate::util::*;
use re::math::point::{pt2, Point2};
use re::math::spline::*;
use re::math::vec::{vec2, Vec2};

/// Z1: on an exact lattice (integer control points in [-2,2], t in {1/4,1/2,3/4})
/// eval == fast_eval == the Bernstein form (integer arithmetic, scaled by 64),
/// tangent == the derivative (scaled by 16), value inside the control points' bounds.
#[kani::proof]
fn c17_evaluators_lattice_f32() {
    let c = [int(-2, 2), int(-2, 2), int(-2, 2), int(-2, 2)];
    let k = int(1, 3);
    let t = k as f32 / 4.0;
    let b = CubicBezier(c.map(|v| v as f32));
    let (u, v) = (4 - k, k);
    let bern = u * u * u * c[0] + 3 * u * u * v * c[1] + 3 * u * v * v * c[2] + v * v * v * c[3];
    assert!(b.eval(t) * 64.0 == bern as f32);
    assert!(b.fast_eval(t) * 64.0 == bern as f32);
    // B'(t) = 3[(1-t)^2 (p1-p0) + 2(1-t)t (p2-p1) + t^2 (p3-p2)], times 16
    let d = 3 * (u * u * (c[1] - c[0]) + 2 * u * v * (c[2] - c[1]) + v * v * (c[3] - c[2]));
    assert!(b.tangent(t) * 16.0 == d as f32);
    let lo = c[0].min(c[1]).min(c[2]).min(c[3]);
    let hi = c[0].max(c[1]).max(c[2]).max(c[3]);
    assert!(b.eval(t) >= lo as f32 && b.eval(t) <= hi as f32);
    kani::cover!(bern != 0 && c[0] != c[3] && c[1] != c[2], "generic");
}

/// Z1 for 2-D vectors and points (componentwise)
#[kani::proof]
#[kani::unwind(6)]
fn c17_evaluators_lattice_2d() {
    let cx = [int(-2, 2), int(-2, 2), int(-2, 2), int(-2, 2)];
    let cy = [int(-2, 2), int(-2, 2), int(-2, 2), int(-2, 2)];
    let k = int(1, 3);
    let t = k as f32 / 4.0;
    let (u, v) = (4 - k, k);
    let bern = |c: [i32; 4]| (u * u * u * c[0] + 3 * u * u * v * c[1] + 3 * u * v * v * c[2] + v * v * v * c[3]) as f32;
    let bv: CubicBezier<Vec2> = CubicBezier([0, 1, 2, 3].map(|i| vec2(cx[i] as f32, cy[i] as f32)));
    let bp: CubicBezier<Point2> = CubicBezier([0, 1, 2, 3].map(|i| pt2(cx[i] as f32, cy[i] as f32)));
    let (e, f) = (bv.eval(t), bv.fast_eval(t));
    assert!(e.x() * 64.0 == bern(cx) && e.y() * 64.0 == bern(cy));
    assert!(f.x() * 64.0 == bern(cx) && f.y() * 64.0 == bern(cy));
    let (e, f) = (bp.eval(t), bp.fast_eval(t));
    assert!(e.x() * 64.0 == bern(cx) && e.y() * 64.0 == bern(cy));
    assert!(f.x() * 64.0 == bern(cx) && f.y() * 64.0 == bern(cy));
    kani::cover!(cx[0] != cx[3] && cy[1] != cy[2], "generic");
}

/// Z2: ends, for all floats: t <= 0 => p0, t >= 1 => p3, bit-identical (eval,
/// fast_eval, spline eval); tangent clamps; NaN t / NaN points never panic.
#[kani::proof]
#[kani::unwind(6)]
fn c17_ends_and_totality() {
    let p: [f32; 4] = kani::any();
    let t: f32 = kani::any();
    let b = CubicBezier(p);
    let (e, f) = (b.eval(t), b.fast_eval(t));
    let tg = b.tangent(t);
    if t <= 0.0 { assert!(e.to_bits() == p[0].to_bits() && f.to_bits() == p[0].to_bits()); }
    if t >= 1.0 { assert!(e.to_bits() == p[3].to_bits() && f.to_bits() == p[3].to_bits()); }
    if t <= 0.0 && p.iter().all(|v| v.is_finite() && v.abs() <= 1e30) {
        // clamped to t = 0: the derivative there is 3 (p1 - p0) (every other term is multiplied by zero)
        assert!(tg == (p[1] - p[0]) * 3.0);
    }
    let sp = BezierSpline::new(&p[..]);
    let s = sp.eval(t);
    let st = sp.tangent(t);
    if t <= 0.0 { assert!(s.to_bits() == p[0].to_bits()); }
    if t >= 1.0 { assert!(s.to_bits() == p[3].to_bits()); }
    kani::cover!(t.is_nan(), "nan parameter");
    kani::cover!(t < 0.0, "before the start");
    kani::cover!(t > 1.0 && p[3].is_nan(), "nan control point");
}

/// Z3a: segment selection and local re-parametrisation for every float t.
/// Control points on a line (p_i = i): every segment is then exactly the linear
/// map t2 -> 3s + 3 t2, so the whole spline is t -> 3 n t.  A wrong segment
/// index or a local parameter that is not re-based leaves [0,1] and is clamped,
/// which shows as a jump.  One symbolic float t, concrete control points: the
/// oracle shares no arithmetic with the code under test.
fn linear_case<const NP: usize>(n: u32) {
    let p: [f32; NP] = core::array::from_fn(|i| i as f32);
    let sp = BezierSpline::new(&p[..]);
    let t: f32 = kani::any();
    kani::assume(t >= 0.0 && t <= 1.0);
    let v = sp.eval(t);
    let want = 3.0 * n as f32 * t;
    assert!((v - want).abs() <= 1e-3);
    kani::cover!(t > 0.6 && t < 0.7, "inside the spline");
}
#[kani::proof] #[kani::unwind(16)] fn c17_segment_linear_n1() { linear_case::<4>(1); }
#[kani::proof] #[kani::unwind(16)] fn c17_segment_linear_n2() { linear_case::<7>(2); }
#[kani::proof] #[kani::unwind(16)] fn c17_segment_linear_n3() { linear_case::<10>(3); }
#[kani::proof] #[kani::unwind(16)] fn c17_segment_linear_n4() { linear_case::<13>(4); }
#[kani::proof] #[kani::unwind(28)] fn c17_segment_linear_n8() { linear_case::<25>(8); }

/// Z3b: inside each segment the spline equals the cubic over that segment's
/// four control points: integer control points in [-2,2], t = j/(4n) for
/// n = 2 and 4 (dyadic, exact), value == Bernstein form of segment j div 4 at
/// (j mod 4)/4, in integer arithmetic.
fn lattice_case<const NP: usize>(n: i32) {
    let c: [i32; NP] = core::array::from_fn(|_| int(-2, 2));
    let p: [f32; NP] = c.map(|v| v as f32);
    let sp = BezierSpline::new(&p[..]);
    let j = int(1, 4 * n - 1);
    let t = j as f32 / (4 * n) as f32;
    let (s, k) = ((j / 4) as usize, j % 4);
    let (u, v) = (4 - k, k);
    let q = &c[3 * s..3 * s + 4];
    let bern = u * u * u * q[0] + 3 * u * u * v * q[1] + 3 * u * v * v * q[2] + v * v * v * q[3];
    assert!(sp.eval(t) * 64.0 == bern as f32);
    kani::cover!(s > 0 && k == 2, "middle of a later segment");
    kani::cover!(k == 0 && s > 0, "exactly on a join");
}
#[kani::proof] #[kani::unwind(16)] fn c17_segment_lattice_n2() { lattice_case::<7>(2); }
#[kani::proof] #[kani::unwind(16)] fn c17_segment_lattice_n4() { lattice_case::<13>(4); }

/// joins: eval(fl(k/n)) passes through control point 3k (within 1e-4 of the
/// control range) and eval(0), eval(1) are the end points — integer control
/// points in [-4,4], n = 1..4 segments.
fn joins_case<const NP: usize>(n: u32) {
    let c: [i32; NP] = core::array::from_fn(|_| int(-4, 4));
    let p: [f32; NP] = c.map(|v| v as f32);
    let sp = BezierSpline::new(&p[..]);
    assert!(sp.eval(0.0) == p[0] && sp.eval(1.0) == p[NP - 1]);
    let k = int(0, n as i32);
    let t = k as f32 / n as f32;
    let v = sp.eval(t);
    assert!((v - p[3 * k as usize]).abs() <= 1e-3);
    kani::cover!(n == 1 || (k > 0 && (k as u32) < n), "interior join");
}
#[kani::proof] #[kani::unwind(16)] fn c17_joins_n1() { joins_case::<4>(1); }
#[kani::proof] #[kani::unwind(16)] fn c17_joins_n2() { joins_case::<7>(2); }
#[kani::proof] #[kani::unwind(16)] fn c17_joins_n3() { joins_case::<10>(3); }
#[kani::proof] #[kani::unwind(16)] fn c17_joins_n4() { joins_case::<13>(4); }

/// BezierSpline::new rejects lengths that are not 3n+1 (n >= 1)
#[kani::proof]
#[kani::should_panic]
#[kani::unwind(16)]
fn c17_new_rejects_bad_length() {
    let p = [0.0f32; 12];
    let n: usize = kani::any();
    kani::assume(n <= 12 && !(n >= 4 && n % 3 == 1));
    let sp = BezierSpline::new(&p[..n]);
    kani::cover!(true, "never: bad control point count accepted");
}

/// smoothstep / smootherstep: clamp outside [0,1], fixed points 0, 1/2, 1, stay in [0,1] on the k/16 lattice
#[kani::proof]
fn c17_smoothstep() {
    let t: f32 = kani::any();
    let (a, b) = (smoothstep(t), smootherstep(t));
    if t <= 0.0 { assert!(a == 0.0 && b == 0.0); }
    if t >= 1.0 { assert!(a == 1.0 && b == 1.0); }
    assert!(smoothstep(0.5) == 0.5 && smootherstep(0.5) == 0.5);
    let k = int(0, 16);
    let (x, y) = (smoothstep(k as f32 / 16.0), smootherstep(k as f32 / 16.0));
    assert!(x >= 0.0 && x <= 1.0 && y >= 0.0 && y <= 1.0);
    // 3t^2 - 2t^3 on the lattice: k^2 (48 - 2k) / 4096
    assert!(x * 4096.0 == (k * k * (48 - 2 * k)) as f32);
    kani::cover!(t.is_nan(), "nan");
}

/// Z2b: exactly *at* the ends.  Control points drawn from a table of values
/// whose arithmetic does not come out exact (0.1, 0.7, 1e8, ...), parameter
/// drawn from {-3, -0.0, 0, 1, 1.5}: eval / fast_eval / spline eval return the
/// first / last control point itself, bit for bit - not a value recomputed by
/// the polynomial.  (c17_ends_and_totality poses the same for all floats, but
/// there the solver has to find the rounding by itself.)
#[kani::proof]
#[kani::unwind(6)]
fn c17_ends_exact() {
    const T: [f32; 8] = [0.1, 0.7, 0.3, 0.9, 1e8, 1.0, 0.17, -2.5];
    let pick = || { let i: u8 = kani::any(); kani::assume(i < 8); T[i as usize] };
    let p = [pick(), pick(), pick(), pick()];
    let ti: u8 = kani::any();
    kani::assume(ti < 5);
    let t = [-3.0f32, -0.0, 0.0, 1.0, 1.5][ti as usize];
    let b = CubicBezier(p);
    let sp = BezierSpline::new(&p[..]);
    let want = if t <= 0.0 { p[0] } else { p[3] };
    assert!(b.eval(t).to_bits() == want.to_bits());
    assert!(b.fast_eval(t).to_bits() == want.to_bits());
    assert!(sp.eval(t).to_bits() == want.to_bits());
    assert!(step(t, &-1.0f32, &2.0f32, |_| 0.0) == if t <= 0.0 { -1.0 } else { 2.0 });
    kani::cover!(ti == 3 && p[0] == 0.1 && p[3] == 0.9, "t = 1 on a non-dyadic polygon");
}

/// Z4: polyline approximation.  Curve with control points [0,0,1,3], i.e.
/// x(t) = 3 t^2 (exact in f32 on dyadic t), so the flatness error handed to
/// `halt` for the piece [a,b] is exactly -3 (b-a)^2 / 4 and *encodes the
/// recursion depth*.  `halt` answers true at depth D and arbitrarily
/// (kani::any) above it, so the solver ranges over every subdivision tree of
/// depth <= D: approximate() terminates, starts at p0 and ends at p_end
/// exactly, yields curve points 3 a_i^2 at strictly increasing dyadic
/// parameters a_i = k_i / 2^D, and every gap is a power of two that is
/// aligned to its own size (a piece of the bisection tree).
// (depth 3 exhausts memory in CBMC: > 40 GB)
const ZD: u32 = 2;
#[kani::proof]
#[kani::unwind(12)]
fn c17_approximate_trees() {
    let sp = BezierSpline::new(&[0.0f32, 0.0, 1.0, 3.0][..]);
    let leaf_err = -3.0 / 4.0 / (1u32 << (2 * ZD)) as f32; // error of a piece of width 2^-ZD
    let pts = sp.approximate(|e: &f32| if *e >= leaf_err { true } else { kani::any() });
    let n = pts.len();
    assert!(n >= 2 && n <= (1usize << ZD) + 1);
    assert!(pts[0] == 0.0 && pts[n - 1] == 3.0);
    let scale = (1u32 << ZD) as f32;
    let mut prev_k: i32 = -1;
    let mut i = 0;
    while i < n {
        // pts[i] == 3 (k / 2^ZD)^2 for an integer k > prev_k
        let mut k = prev_k + 1;
        let mut found = false;
        while k <= (1i32 << ZD) {
            let a = k as f32 / scale;
            if 3.0 * a * a == pts[i] { found = true; break; }
            k += 1;
        }
        assert!(found);
        if prev_k >= 0 {
            let gap = k - prev_k;
            assert!(gap & (gap - 1) == 0); // power of two
            assert!(prev_k % gap == 0);    // aligned: a node of the bisection tree
        }
        prev_k = k;
        i += 1;
    }
    assert!(prev_k == 1 << ZD);
    kani::cover!(n == 3, "one split only");
    kani::cover!(n == (1usize << ZD) + 1, "fully subdivided");
    kani::cover!(n == 4, "unbalanced tree");
}

/// the recursion-depth bound, through the cfg(kani) hook `verif_approximate_to_depth`
/// (do_approx with an explicit budget B instead of 10 + log2(len)): with a criterion that is
/// met only at depth D = B+1, subdivision stops at depth B on every
/// path - left and right turns alike: all vertices are curve points on the grid k/2^B, gaps are
/// aligned powers of two, and when the criterion is not met at the bound the result is the full
/// grid (every piece that did not meet the criterion sits at the bound).
#[kani::proof]
#[kani::unwind(12)]
fn c17_approximate_depth_bound() {
    let sp = BezierSpline::new(&[0.0f32, 0.0, 1.0, 3.0][..]);
    let b: u32 = ZD;
    // the criterion accepts exactly the pieces at depth >= D (the error of a piece of width
    // 2^-d is -3/4 * 4^-d), D = B+1: deterministic, so that an implementation
    // that overruns the budget is decided quickly instead of forking on every answer
    // (D concrete: a symbolic threshold makes every answer of the criterion a fork, and an
    // implementation that overruns the budget is then not decided within the cap)
    let dd: u32 = ZD + 1;
    let thr = -0.75 / (1u32 << (2 * dd)) as f32;
    let pts = sp.verif_approximate_to_depth(b, |e: &f32| *e >= thr);
    let n = pts.len();
    assert!(n >= 2 && n <= (1usize << b) + 1);
    let want = if dd > b { b } else { dd };
    assert!(n == (1usize << want) + 1);
    assert!(pts[0] == 0.0 && pts[n - 1] == 3.0);
    let scale = (1u32 << b) as f32;
    let mut prev_k: i32 = -1;
    let mut i = 0;
    while i < n {
        let mut k = prev_k + 1;
        let mut found = false;
        while k <= (1i32 << b) {
            let a = k as f32 / scale;
            if 3.0 * a * a == pts[i] { found = true; break; }
            k += 1;
        }
        assert!(found);
        if prev_k >= 0 {
            let gap = k - prev_k;
            assert!(gap & (gap - 1) == 0);
            assert!(prev_k % gap == 0);
        }
        prev_k = k;
        i += 1;
    }
    assert!(prev_k == 1 << b);
    kani::cover!(n == 5, "criterion still unmet at the bound");
}
