//! C12 — texture samplers address the right texel and never go out of bounds.
//! Texel (x, y) stores (x, y), so the value read *is* the address used.
use crate::util::*;
use re::render::tex::*;
use re::util::buf::*;

type Tx = (u32, u32);

fn pot_dim() -> u32 {
    let k: u32 = kani::any();
    kani::assume(k <= 3);
    1 << k
}

fn floor_i64(u: f32) -> i64 {
    (u as f64).floor() as i64
}

/// Repeat sampler, owned texture, dims symbolic in {1,2,4,8}^2, every pair of
/// f32 bit patterns: no panic; for |u|,|v| < 2^31 the texel is floor(u) mod w.
#[kani::proof]
#[kani::unwind(66)]
fn c12_repeat_abs() {
    let (w, h) = (pot_dim(), pot_dim());
    let tex = Texture::from(Buf2::new_with((w, h), |x, y| (x, y)));
    let s = SamplerRepeatPot::new(&tex);
    let u: f32 = kani::any();
    let v: f32 = kani::any();
    let (x, y): Tx = s.sample_abs(&tex, uv(u, v));
    assert!(x < w && y < h);
    if u.abs() < TWO31 {
        assert!(x as i64 == floor_i64(u).rem_euclid(w as i64));
    }
    if v.abs() < TWO31 {
        assert!(y as i64 == floor_i64(v).rem_euclid(h as i64));
    }
    kani::cover!(u < 0.0 && (u as i32) as f32 == u && w > 1, "negative integer u");
    kani::cover!(u.is_nan() || v.is_infinite(), "nan / inf");
    kani::cover!(u > 1e6 && u < 2e9, "large u");
    kani::cover!(w == 8 && h == 1, "8x1");
}

/// Relative entry point == absolute at (w*u, h*v), repeat sampler.
#[kani::proof]
#[kani::unwind(18)]
fn c12_repeat_rel() {
    let (w, h) = (4u32, 4u32);
    let tex = Texture::from(Buf2::new_with((w, h), |x, y| (x, y)));
    let s = SamplerRepeatPot::new(&tex);
    let u: f32 = kani::any();
    let v: f32 = kani::any();
    let a: Tx = s.sample(&tex, uv(u, v));
    let b: Tx = s.sample_abs(&tex, uv(tex.width() * u, tex.height() * v));
    assert!(a == b);
    assert!(tex.width() == 4.0 && tex.height() == 4.0);
    kani::cover!(u < -0.3 && u > -0.4, "negative fraction");
}

/// Repeat sampler on a borrowed sub-rectangle of a larger (8x4) buffer at a
/// symbolic offset: addresses are relative to the sub-rectangle.
#[kani::proof]
#[kani::unwind(34)]
fn c12_repeat_borrowed() {
    let big = Buf2::new_with((8, 4), |x, y| (x, y));
    let (w, h) = (pot_dim(), pot_dim());
    let l: u32 = kani::any();
    let t: u32 = kani::any();
    kani::assume(w <= 4 && h <= 2 && l <= 8 - w && t <= 4 - h);
    let tex = Texture::from(big.slice((l..l + w, t..t + h)));
    let s = SamplerRepeatPot::new(&tex);
    let u: f32 = kani::any();
    let v: f32 = kani::any();
    let (x, y): Tx = s.sample_abs(&tex, uv(u, v));
    assert!(x >= l && x < l + w && y >= t && y < t + h);
    if u.abs() < TWO31 && v.abs() < TWO31 {
        assert!((x - l) as i64 == floor_i64(u).rem_euclid(w as i64));
        assert!((y - t) as i64 == floor_i64(v).rem_euclid(h as i64));
    }
    kani::cover!(l > 0 && t > 0 && w == 4 && h == 2, "offset 4x2");
}

/// Clamp sampler: arbitrary dims in [1,5]^2, every f32 pair incl. NaN/inf:
/// no panic, texel = floor(clamp(u, 0, w-1)).
#[cfg(not(feature = "cfg-bare"))]
#[kani::proof]
#[kani::unwind(27)]
fn c12_clamp_abs() {
    let w: u32 = kani::any();
    let h: u32 = kani::any();
    kani::assume(w >= 1 && w <= 5 && h >= 1 && h <= 5);
    let tex = Texture::from(Buf2::new_with((w, h), |x, y| (x, y)));
    let u: f32 = kani::any();
    let v: f32 = kani::any();
    let (x, y): Tx = SamplerClamp.sample_abs(&tex, uv(u, v));
    let want = |c: f32, n: u32| -> u32 {
        if c.is_nan() { return u32::MAX; }
        let f = floor_i64(c);
        if f < 0 { 0 } else if f > (n - 1) as i64 { n - 1 } else { f as u32 }
    };
    assert!(x < w && y < h);
    if !u.is_nan() { assert!(x == want(u, w)); }
    if !v.is_nan() { assert!(y == want(v, h)); }
    // relative entry point
    let r: Tx = SamplerClamp.sample(&tex, uv(u, v));
    let a: Tx = SamplerClamp.sample_abs(&tex, uv(u * tex.width(), v * tex.height()));
    assert!(r == a);
    kani::cover!(u < 0.0, "negative");
    kani::cover!(u > 10.0, "beyond");
    kani::cover!(u.is_nan(), "nan");
    kani::cover!(w == 5 && h == 3 && x == 4 && y == 2, "5x3 corner");
}

/// SamplerOnce agrees with repeat (and clamp) for in-range coordinates; its
/// relative entry point is the absolute one scaled.
#[kani::proof]
#[kani::unwind(18)]
fn c12_once_agrees() {
    let (w, h) = (pot_dim(), pot_dim());
    kani::assume(w <= 4 && h <= 4);
    let tex = Texture::from(Buf2::new_with((w, h), |x, y| (x, y)));
    let u: f32 = kani::any();
    let v: f32 = kani::any();
    kani::assume(u >= 0.0 && u < w as f32 && v >= 0.0 && v < h as f32);
    let o: Tx = SamplerOnce.sample_abs(&tex, uv(u, v));
    let r: Tx = SamplerRepeatPot::new(&tex).sample_abs(&tex, uv(u, v));
    assert!(o == r);
    assert!(o.0 as i64 == floor_i64(u) && o.1 as i64 == floor_i64(v));
    #[cfg(not(feature = "cfg-bare"))]
    {
        let c: Tx = SamplerClamp.sample_abs(&tex, uv(u, v));
        assert!(o == c);
    }
    kani::cover!(w == 4 && u > 3.5, "last texel");
}

/// SamplerOnce relative entry point == absolute at (w*u, h*v) whenever the
/// scaled coordinate is in range.
#[kani::proof]
#[kani::unwind(18)]
fn c12_once_rel() {
    let (w, h) = (4u32, 2u32);
    let tex = Texture::from(Buf2::new_with((w, h), |x, y| (x, y)));
    let u: f32 = kani::any();
    let v: f32 = kani::any();
    let (su, sv) = (tex.width() * u, tex.height() * v);
    kani::assume(su >= 0.0 && su < 4.0 && sv >= 0.0 && sv < 2.0);
    let a: Tx = SamplerOnce.sample(&tex, uv(u, v));
    let b: Tx = SamplerOnce.sample_abs(&tex, uv(su, sv));
    assert!(a == b);
    kani::cover!(a == (3, 1), "corner");
}
