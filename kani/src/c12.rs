//! C12 — texture samplers (placeholder, filled in below)
