//! rfv — Kani proof harnesses over the real retrofire crates (path deps on
//! /repo).  One module per property; the retrofire-core feature set under test
//! is chosen with `-F cfg-{bare,libm,mm,std}`.  Driven by /verif/check.
#![allow(unused, non_snake_case)]

#[cfg(kani)]
pub mod util;
#[cfg(kani)]
pub mod c20;
#[cfg(kani)]
pub mod c12;
#[cfg(kani)]
pub mod c11;
#[cfg(kani)]
pub mod c19;
#[cfg(kani)]
pub mod c16;
#[cfg(kani)]
pub mod c04;
#[cfg(kani)]
pub mod c06;
#[cfg(kani)]
pub mod c05;
#[cfg(kani)]
pub mod c02;
#[cfg(kani)]
pub mod c09;
#[cfg(kani)]
pub mod c08;
#[cfg(kani)]
pub mod c13;
#[cfg(kani)]
pub mod c17;
#[cfg(kani)]
pub mod c18;
