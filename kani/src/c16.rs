//! C16 — colour conversions (integer kernels over their whole domain;
//! the float HSL paths go through float `%`, which CBMC cannot model: see smt/).
use crate::util::*;
use re::math::color::*;
use re::math::space::Affine;
use re::math::vec::Vector;

fn any_rgb() -> Color3 {
    let c: [u8; 3] = kani::any();
    rgb(c[0], c[1], c[2])
}

fn within(a: u8, b: u8, tol: i32) -> bool {
    (a as i32 - b as i32).abs() <= tol
}

/// 8-bit HSL -> RGB is total (no debug_assert / unreachable / overflow) for all 2^24.
#[kani::proof]
fn c16_hsl8_to_rgb_total() {
    let c: [u8; 3] = kani::any();
    let out = hsl(c[0], c[1], c[2]).to_rgb();
    kani::cover!(c[0] == 255 && c[1] == 255 && c[2] == 128, "extreme hue, full saturation");
    kani::cover!(out.r() == 255 && out.g() == 0, "pure red-ish");
}

/// 8-bit RGB -> HSL -> RGB within 8/255 per channel, all 2^24, split by which
/// channel is the maximum (three sibling harnesses).
fn roundtrip8(c: Color3) {
    let h = c.to_hsl();
    let back = h.to_rgb();
    assert!(within(back.r(), c.r(), 8) && within(back.g(), c.g(), 8) && within(back.b(), c.b(), 8));
}
#[kani::proof]
fn c16_rgb8_roundtrip_rmax() {
    let c = any_rgb();
    kani::assume(c.r() >= c.g() && c.r() >= c.b());
    roundtrip8(c);
    kani::cover!(c.g() < c.b(), "negative hue numerator (wraps)");
    kani::cover!(c.r() == c.g() && c.g() == c.b(), "gray");
}
#[kani::proof]
fn c16_rgb8_roundtrip_gmax() {
    let c = any_rgb();
    kani::assume(c.g() > c.r() && c.g() >= c.b());
    roundtrip8(c);
    kani::cover!(c.b() > c.r(), "towards cyan");
}
#[kani::proof]
fn c16_rgb8_roundtrip_bmax() {
    let c = any_rgb();
    kani::assume(c.b() > c.r() && c.b() > c.g());
    roundtrip8(c);
    kani::cover!(c.r() > c.g(), "towards magenta");
}

/// grays: zero saturation and lightness kept, both directions; hue 255 adjacent to hue 0.
#[kani::proof]
fn c16_grays_and_hue_wrap() {
    let v: u8 = kani::any();
    let g = gray(v).to_hsl();
    assert!(g.s() == 0 && g.l() == v && g.h() == 0);
    let hh: u8 = kani::any();
    let back = hsl(hh, 0u8, v).to_rgb();
    assert!(back.r() == v && back.g() == v && back.b() == v);
    // hue 255 vs hue 0: neighbouring colours (within 8/255)
    let (s, l): (u8, u8) = (kani::any(), kani::any());
    let a = hsl(0u8, s, l).to_rgb();
    let b = hsl(255u8, s, l).to_rgb();
    assert!(within(a.r(), b.r(), 8) && within(a.g(), b.g(), 8) && within(a.b(), b.b(), 8));
    kani::cover!(s == 255 && l == 128, "saturated");
}

/// to_hsla / to_rgba keep alpha and agree with the 3-channel conversions.
#[kani::proof]
fn c16_alpha_variants() {
    let c: [u8; 4] = kani::any();
    // two runs of the divider-heavy kernels are compared: channels on the 6-step lattice
    kani::assume(c[0] % 51 == 0 && c[1] % 51 == 0 && c[2] % 51 == 0);
    let x = rgba(c[0], c[1], c[2], c[3]);
    let h = x.to_hsla();
    let h3 = rgb(c[0], c[1], c[2]).to_hsl();
    assert!(h.a() == c[3] && h.h() == h3.h() && h.s() == h3.s() && h.l() == h3.l());
    assert!(h.to_hsl().0 == h3.0);
    let y = hsla(c[0], c[1], c[2], c[3]).to_rgba();
    let y3 = hsl(c[0], c[1], c[2]).to_rgb();
    assert!(y.a() == c[3] && y.to_rgb().0 == y3.0);
    kani::cover!(c[3] == 0x80 && c[0] == 51 && c[1] == 204, "alpha");
}

/// packing: byte order of the three u32 formats, all 2^32 words; rgb<->rgba.
#[kani::proof]
fn c16_packing() {
    let c: [u8; 4] = kani::any();
    let [r, g, b, a] = c;
    let x = rgba(r, g, b, a);
    assert!(x.to_rgba_u32() == (r as u32) << 24 | (g as u32) << 16 | (b as u32) << 8 | a as u32);
    assert!(x.to_argb_u32() == (a as u32) << 24 | (r as u32) << 16 | (g as u32) << 8 | b as u32);
    assert!(rgb(r, g, b).to_rgb_u32() == (r as u32) << 16 | (g as u32) << 8 | b as u32);
    assert!(x.to_rgb().0 == [r, g, b]);
    assert!(rgb(r, g, b).to_rgba().0 == [r, g, b, 0xFF]);
    kani::cover!(r == 0x12 && g == 0x34 && b == 0x56 && a == 0x78, "0x12345678");
}

/// float -> 8-bit: clamps, for every float incl. NaN / +-inf; alpha handling.
#[kani::proof]
fn c16_float_to_u8_clamps() {
    let c: [f32; 4] = kani::any();
    let want = |v: f32| -> u8 {
        if v.is_nan() { 0 } else if v <= 0.0 { 0 } else if v >= 1.0 { 255 } else { (v * 255.0) as u8 }
    };
    let c3 = rgb(c[0], c[1], c[2]);
    let o3 = c3.to_color3();
    // NaN.clamp() is NaN, which casts to 0
    assert!(o3.r() == want(c[0]) && o3.g() == want(c[1]) && o3.b() == want(c[2]));
    let o4 = c3.to_color4();
    assert!(o4.0 == [o3.r(), o3.g(), o3.b(), 0xFF]);
    let c4 = rgba(c[0], c[1], c[2], c[3]);
    assert!(c4.to_color4().0 == [want(c[0]), want(c[1]), want(c[2]), want(c[3])]);
    assert!(c4.to_color3().0 == o3.0);
    assert!(c4.to_rgb().0 == [c[0], c[1], c[2]] || c.iter().any(|v| v.is_nan()));
    let r4 = c3.to_rgba();
    assert!(r4.a() == 1.0);
    kani::cover!(c[0] > 1.0 && c[1] < 0.0 && c[2].is_nan(), "above, below, nan");
    kani::cover!(c[0] > 0.5 && c[0] < 0.6, "interior");
}

/// adding a difference to an 8-bit colour saturates, never wraps — every
/// channel value x every i32 delta whose i32 sum does not overflow.
#[kani::proof]
fn c16_u8_add_saturates() {
    let c: [u8; 3] = kani::any();
    let d: [i32; 3] = kani::any();
    kani::assume(d.iter().all(|v| *v <= i32::MAX - 255));
    let x: Color3 = rgb(c[0], c[1], c[2]);
    let y = x.add(&Vector::new(d));
    for i in 0..3 {
        let sum = c[i] as i64 + d[i] as i64;
        let want = if sum < 0 { 0 } else if sum > 255 { 255 } else { sum as u8 };
        assert!(y.0[i] == want);
    }
    // sub is the exact channel difference
    let z: Color3 = rgb(d[0] as u8, d[1] as u8, d[2] as u8);
    let diff = x.sub(&z);
    assert!(diff.0[0] == c[0] as i32 - (d[0] as u8) as i32);
    kani::cover!(d[0] < -300 && d[1] > 300, "both directions");
}
