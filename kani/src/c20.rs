//! C20 — float helper backends (floor, abs, rem_euclid, sqrt, recip_sqrt) in
//! every feature configuration, against their *defining* property.
use crate::util::*;
use re::math::float::f32 as rf;

/// floor: r integral, r <= x < r+1, for every f32 with |x| < 2^31
/// (|x| >= 2^23: every float is an integer, so r == x).
#[kani::proof]
fn c20_floor() {
    let x: f32 = kani::any();
    kani::assume(x.abs() < TWO31);
    let r = rf::floor(x);
    if x.abs() >= TWO23 {
        assert!(r == x);
    } else {
        assert!(r <= x);
        assert!(x < r + 1.0); // r + 1 is exact for an integer |r| <= 2^23
        assert!((r as i32) as f32 == r); // integral
    }
    kani::cover!(x < 0.0 && (x as i32) as f32 == x, "negative integer");
    kani::cover!(x.to_bits() == 0x8000_0000, "minus zero");
    kani::cover!(x > 0.0 && x < 1e-38, "subnormal");
    kani::cover!(x >= TWO23, "beyond 2^23");
}

/// floor is total and correct beyond the i32 range too (bare, libm, std):
/// finite |x| >= 2^31 is an integer -> returned unchanged; +-inf -> itself;
/// NaN -> no panic.
#[kani::proof]
fn c20_floor_huge() {
    let x: f32 = kani::any();
    kani::assume(!(x.abs() < TWO31));
    let r = rf::floor(x);
    if !x.is_nan() {
        assert!(r == x);
    }
    kani::cover!(x == f32::NEG_INFINITY, "-inf");
    kani::cover!(x.is_nan(), "nan");
    kani::cover!(x < -1e30, "hugely negative");
}

/// micromath's floor goes through i32: total (no panic) for every bit pattern.
#[kani::proof]
fn c20_floor_total() {
    let x: f32 = kani::any();
    let r = rf::floor(x);
    kani::cover!(x.is_nan(), "nan");
    kani::cover!(x.is_infinite(), "inf");
}

/// abs clears the sign bit and nothing else — every bit pattern, NaNs included.
#[kani::proof]
fn c20_abs() {
    let x: f32 = kani::any();
    let r = rf::abs(x);
    assert!(r.to_bits() == x.to_bits() & 0x7fff_ffff);
    kani::cover!(x.is_nan(), "nan");
    kani::cover!(x.to_bits() == 0x8000_0000, "minus zero");
}

// rem_euclid is NOT decided here: CBMC 6.11's model of float `%` is unusable
// (5.5 % 2.0 evaluates to neither 1.5 nor -0.5, even on constants), see
// DESIGN.md; it is decided by the MIR->SMT engine (smt/) instead.

/// sqrt: y >= 0 and |y*y - x| <= TOL * x for every x in [1, 4) (all 2^24 mantissas of
/// two adjacent binades; other binades differ by an exact factor 4^k).
#[cfg(feature = "cfg-mm")]
const SQRT_TOL: f32 = 4e-3;
#[cfg(not(feature = "cfg-mm"))]
const SQRT_TOL: f32 = 2.4e-7; // 2 ulp of y^2

#[cfg(any(feature = "cfg-mm", feature = "cfg-std"))]
#[kani::proof]
fn c20_sqrt() {
    let x: f32 = kani::any();
    kani::assume(x >= 1.0 && x < 4.0);
    #[cfg(not(feature = "deep"))]
    kani::assume(x.to_bits() & 0x7fff == 0); // quick tier: 8 leading mantissa bits
    let y = rf::sqrt(x);
    assert!(y >= 0.0);
    let e = y * y - x;
    assert!(e <= SQRT_TOL * x && -e <= SQRT_TOL * x);
    kani::cover!(x > 2.0, "upper binade");
    kani::cover!(x < 2.0, "lower binade");
}

/// fast reciprocal square root (fallback / micromath + one Newton step):
/// |y*y*x - 1| <= 5e-3 for every x in [1, 4).
#[cfg(any(feature = "cfg-mm", feature = "cfg-bare"))]
#[kani::proof]
fn c20_recip_sqrt() {
    let x: f32 = kani::any();
    kani::assume(x >= 1.0 && x < 4.0);
    #[cfg(not(feature = "deep"))]
    kani::assume(x.to_bits() & 0x7fff == 0); // quick tier: 8 leading mantissa bits
    #[cfg(feature = "cfg-bare")]
    let y = re::math::float::fallback::recip_sqrt(x);
    #[cfg(feature = "cfg-mm")]
    let y = re::math::float::mm::recip_sqrt(x);
    assert!(y > 0.0);
    let e = y * y * x - 1.0;
    assert!(e <= 5e-3 && e >= -5e-3);
    kani::cover!(x > 2.0, "upper binade");
    kani::cover!(x < 2.0, "lower binade");
}
