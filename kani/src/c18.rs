//! C18 — angles: unit conversions and arithmetic (wrap goes through float %,
//! which CBMC cannot model: decided by the SMT engine; polar/spherical need
//! transcendental values: outside).
use crate::util::*;
use re::math::angle::*;
use re::math::space::{Affine, Linear};

fn ulps(a: f32, b: f32) -> u32 {
    // both same sign & finite assumed by callers
    let (x, y) = (a.to_bits() as i64, b.to_bits() as i64);
    (x - y).unsigned_abs() as u32
}

/// U1: degs/turns/rads and to_degs/to_turns/to_rads round trips within 4 ulp
/// for |a| in [1,2) (every other binade is an exact power-of-two multiple); constants consistent.
#[kani::proof]
fn c18_unit_round_trips() {
    let a: f32 = kani::any();
    // one binade, both signs (multiplying and dividing by a constant commutes with scaling by
    // 2^k as long as nothing over/underflows); quick tier: 12 leading mantissa bits
    kani::assume(a.abs() >= 1.0 && a.abs() < 2.0);
    #[cfg(not(feature = "deep"))]
    kani::assume(a.to_bits() & 0x7ff == 0);
    assert!(rads(a).to_rads().to_bits() == a.to_bits());
    let d = degs(a).to_degs();
    let t = turns(a).to_turns();
    assert!((d < 0.0) == (a < 0.0) && ulps(d, a) <= 4);
    assert!((t < 0.0) == (a < 0.0) && ulps(t, a) <= 4);
    assert!(degs(360.0).to_rads() == Angle::FULL.to_rads() || ulps(degs(360.0).to_rads(), Angle::FULL.to_rads()) <= 1);
    assert!(turns(1.0) == Angle::FULL && turns(0.5) == Angle::STRAIGHT && turns(0.25) == Angle::RIGHT);
    assert!(Angle::ZERO.to_rads() == 0.0);
    kani::cover!(a < -1.5, "negative");
}

/// U1b: cross conversions: degs(x) and turns(x/360) describe the same angle (4 ulp),
/// x = 360 * m / 2^k exactly representable multiples.
#[kani::proof]
fn c18_cross_conversion() {
    let k = int(-4096, 4096);
    let tu = k as f32 / 64.0; // turns, dyadic
    let de = tu * 360.0; // exact: 360 * k / 64 has few bits
    let (a, b) = (turns(tu).to_rads(), degs(de).to_rads());
    assert!(a == b || ((a < 0.0) == (b < 0.0) && ulps(a, b) <= 4));
    let back = degs(de).to_turns();
    assert!(back == tu || ulps(back, tu) <= 4);
    kani::cover!(k == 64 * 3 + 16, "3.25 turns");
}

/// U2: min/max/clamp, +, -, neg and the Affine/Linear impls act on the radian
/// value, bit for bit, for all non-NaN floats.
#[kani::proof]
fn c18_ops_on_magnitude() {
    let (x, y, s): (f32, f32, f32) = (kani::any(), kani::any(), kani::any());
    kani::assume(!x.is_nan() && !y.is_nan() && !s.is_nan());
    let (a, b) = (rads(x), rads(y));
    assert!((a + b).to_rads().to_bits() == (x + y).to_bits() || (x + y).is_nan());
    assert!((a - b).to_rads().to_bits() == (x - y).to_bits() || (x - y).is_nan());
    assert!((-a).to_rads().to_bits() == (-x).to_bits());
    assert!(a.min(b).to_rads() == x.min(y) && a.max(b).to_rads() == x.max(y));
    if x <= y {
        let c = rads(s).clamp(a, b).to_rads();
        assert!(c == s.clamp(x, y) && c >= x && c <= y);
    }
    assert!(Affine::add(&a, &b) == a + b && Affine::sub(&a, &b) == a - b || (x + y).is_nan() || (x - y).is_nan());
    assert!(Linear::neg(&a).to_rads().to_bits() == (-x).to_bits());
    assert!(<Angle as Linear>::zero() == Angle::ZERO);
    kani::cover!(x < 0.0 && y > 0.0 && s > 1.0, "generic");
}

/// U2b: scaling: angle * s, angle / s and Linear::mul act on the radian value.
/// The scalar is a power of two (2^k, k in [-3,3], either sign) so that the
/// oracle is an exact exponent shift instead of a second symbolic multiplier.
#[kani::proof]
fn c18_scaling() {
    let x: f32 = kani::any();
    kani::assume(x.is_finite() && x.abs() >= 1e-30 && x.abs() <= 1e30);
    let k = int(-3, 3);
    let neg: bool = kani::any();
    let p = f32::from_bits(((127 + k) as u32) << 23);
    let s = if neg { -p } else { p };
    let a = rads(x);
    // x * 2^k: same mantissa and sign (xor neg), exponent + k
    let want_bits = |e: i32| {
        let b = x.to_bits();
        let exp = ((b >> 23) & 0xff) as i32 + e;
        ((b & 0x807f_ffff) | ((exp as u32) << 23)) ^ (if neg { 0x8000_0000 } else { 0 })
    };
    assert!((a * s).to_rads().to_bits() == want_bits(k));
    assert!((a / s).to_rads().to_bits() == want_bits(-k));
    assert!(Linear::mul(&a, s).to_rads().to_bits() == want_bits(k));
    kani::cover!(k == 3 && neg && x < 0.0, "times -8");
}
