//! C04 — scan conversion covers exactly the pixels whose centres are inside.
//! Also serves C02 (P2: no panic / in-grid) and C05 (F1) through shared helpers.
//!
//! Domain: every triangle whose vertices lie on the half-pixel lattice of a
//! G x G pixel grid (coordinates k/2, k in [0, 2G]).  Every intermediate value
//! is exactly representable, so the oracle is integer arithmetic on doubled
//! coordinates and "within 0.001 px of an edge" collapses to "exactly on it"
//! (the smallest non-zero centre-to-edge distance on this lattice is 0.044 px).
use crate::util::*;
use re::geom::{vertex, Vertex};
use re::math::point::pt3;
use re::math::vary::Vary;
use re::render::raster::{tri_fill, ScreenPt};

pub const G: i32 = 2;

pub fn edge(ax: i32, ay: i32, bx: i32, by: i32, px: i32, py: i32) -> i32 {
    (bx - ax) * (py - ay) - (by - ay) * (px - ax)
}

pub fn lat(lo: i32, hi: i32) -> i32 {
    int(lo, hi)
}

/// runs tri_fill on the lattice triangle k (doubled coordinates), returns the
/// per-pixel fragment counts; asserts the scanline-level sub-claims
pub fn fill_counts<V: Vary>(k: [i32; 6], attr: [V; 3]) -> [[u8; G as usize]; G as usize] {
    let [a0, a1, a2] = attr;
    let vs = [
        vertex(pt3(k[0] as f32 * 0.5, k[1] as f32 * 0.5, 1.0), a0),
        vertex(pt3(k[2] as f32 * 0.5, k[3] as f32 * 0.5, 1.0), a1),
        vertex(pt3(k[4] as f32 * 0.5, k[5] as f32 * 0.5, 1.0), a2),
    ];
    let mut cov = [[0u8; G as usize]; G as usize];
    let mut last_y: i64 = -1;
    let mut ok = true;
    tri_fill(vs, |sl| {
        let y = sl.y;
        // rows arrive in strictly increasing y
        if (y as i64) <= last_y { ok = false; }
        last_y = y as i64;
        // reported x-range has the length of the fragment sequence
        let n = sl.vs.count();
        if n != sl.xs.end.saturating_sub(sl.xs.start) { ok = false; }
        // inside the grid
        if y >= G as usize || sl.xs.end > G as usize { ok = false; }
        else { for x in sl.xs { cov[y][x] += 1; } }
    });
    assert!(ok);
    cov
}

/// centre (2i+1, 2j+1)/2 vs triangle k: (strictly inside, strictly outside)
pub fn classify(k: [i32; 6], i: i32, j: i32) -> (bool, bool) {
    let (px, py) = (2 * i + 1, 2 * j + 1);
    let area2 = edge(k[0], k[1], k[2], k[3], k[4], k[5]);
    let e0 = edge(k[0], k[1], k[2], k[3], px, py);
    let e1 = edge(k[2], k[3], k[4], k[5], px, py);
    let e2 = edge(k[4], k[5], k[0], k[1], px, py);
    let inside = (e0 > 0 && e1 > 0 && e2 > 0) || (e0 < 0 && e1 < 0 && e2 < 0);
    let outside = (area2 > 0 && (e0 < 0 || e1 < 0 || e2 < 0)) || (area2 < 0 && (e0 > 0 || e1 > 0 || e2 > 0));
    (inside, outside)
}

fn cover_case(y0: i32) {
    let k = [lat(0, 2 * G), y0, lat(0, 2 * G), lat(0, 2 * G), lat(0, 2 * G), lat(0, 2 * G)];
    let area2 = edge(k[0], k[1], k[2], k[3], k[4], k[5]);
    kani::assume(area2 != 0);
    let cov = fill_counts(k, [(), (), ()]);
    let mut any_in = false;
    let mut any_edge_drawn = false;
    for j in 0..G {
        for i in 0..G {
            let (inside, outside) = classify(k, i, j);
            let c = cov[j as usize][i as usize];
            if inside { assert!(c == 1); any_in = true; }
            if outside { assert!(c == 0); }
            assert!(c <= 1);
            if !inside && !outside && c == 1 { any_edge_drawn = true; }
        }
    }
    kani::cover!(any_in, "a strictly-inside centre");
    kani::cover!(any_edge_drawn, "an on-edge centre drawn");
    kani::cover!(area2 < 0, "clockwise");
    kani::cover!(k[1] == k[3] && k[5] != k[1], "flat top or bottom");
}

// one harness per y of the first vertex (case split on a symbolic input);
// the first vertex is arbitrary, so every vertex order is included
#[kani::proof] #[kani::unwind(6)] fn c04_cover_g2_y0() { cover_case(0); }
#[kani::proof] #[kani::unwind(6)] fn c04_cover_g2_y1() { cover_case(1); }
#[kani::proof] #[kani::unwind(6)] fn c04_cover_g2_y2() { cover_case(2); }
#[kani::proof] #[kani::unwind(6)] fn c04_cover_g2_y3() { cover_case(3); }
#[kani::proof] #[kani::unwind(6)] fn c04_cover_g2_y4() { cover_case(4); }

/// degenerate (zero-area) lattice triangles: no panic, rows increasing, in
/// grid, no pixel twice, and no centre strictly off the degenerate segment's
/// line is drawn... (only the safety part is asserted: C02 P2)
#[kani::proof]
#[kani::unwind(6)]
fn c04_degenerate_g2() {
    let k = [lat(0, 2 * G), lat(0, 2 * G), lat(0, 2 * G), lat(0, 2 * G), lat(0, 2 * G), lat(0, 2 * G)];
    kani::assume(edge(k[0], k[1], k[2], k[3], k[4], k[5]) == 0);
    let cov = fill_counts(k, [(), (), ()]);
    for j in 0..G { for i in 0..G { assert!(cov[j as usize][i as usize] <= 1); } }
    kani::cover!(k[0] == k[2] && k[2] == k[4] && k[1] == k[3] && k[3] == k[5], "all vertices equal");
    kani::cover!(k[1] == k[3] && k[3] == k[5] && k[0] != k[2], "horizontal segment");
    kani::cover!(k[0] != k[2] && k[1] != k[3] && (k[0], k[1]) != (k[4], k[5]), "slanted segment");
}

// ---- thorough tier: 3x3-pixel grid, one harness per position of the first vertex (7 x 7) ----

pub fn fill_counts3(k: [i32; 6]) -> [[u8; 3]; 3] {
    let vs = [
        vertex(pt3(k[0] as f32 * 0.5, k[1] as f32 * 0.5, 1.0), ()),
        vertex(pt3(k[2] as f32 * 0.5, k[3] as f32 * 0.5, 1.0), ()),
        vertex(pt3(k[4] as f32 * 0.5, k[5] as f32 * 0.5, 1.0), ()),
    ];
    let mut cov = [[0u8; 3]; 3];
    let mut last_y: i64 = -1;
    let mut ok = true;
    tri_fill(vs, |sl| {
        let y = sl.y;
        if (y as i64) <= last_y { ok = false; }
        last_y = y as i64;
        let n = sl.vs.count();
        if n != sl.xs.end.saturating_sub(sl.xs.start) { ok = false; }
        if y >= 3 || sl.xs.end > 3 { ok = false; }
        else { for x in sl.xs { cov[y][x] += 1; } }
    });
    assert!(ok);
    cov
}

fn cover_case3(x0: i32, y0: i32) {
    let k = [x0, y0, lat(0, 6), lat(0, 6), lat(0, 6), lat(0, 6)];
    let area2 = edge(k[0], k[1], k[2], k[3], k[4], k[5]);
    kani::assume(area2 != 0);
    let cov = fill_counts3(k);
    let mut any_in = false;
    for j in 0..3 {
        for i in 0..3 {
            let (inside, outside) = classify(k, i, j);
            let c = cov[j as usize][i as usize];
            if inside { assert!(c == 1); any_in = true; }
            if outside { assert!(c == 0); }
            assert!(c <= 1);
        }
    }
    kani::cover!(any_in, "a strictly-inside centre");
}

macro_rules! g3 {
    ($($name:ident: $x:expr, $y:expr;)*) => { $( #[kani::proof] #[kani::unwind(8)] fn $name() { cover_case3($x, $y); } )* };
}
g3! {
    c04_cover_g3_00: 0,0; c04_cover_g3_10: 1,0; c04_cover_g3_20: 2,0; c04_cover_g3_30: 3,0; c04_cover_g3_40: 4,0; c04_cover_g3_50: 5,0; c04_cover_g3_60: 6,0;
    c04_cover_g3_01: 0,1; c04_cover_g3_11: 1,1; c04_cover_g3_21: 2,1; c04_cover_g3_31: 3,1; c04_cover_g3_41: 4,1; c04_cover_g3_51: 5,1; c04_cover_g3_61: 6,1;
    c04_cover_g3_02: 0,2; c04_cover_g3_12: 1,2; c04_cover_g3_22: 2,2; c04_cover_g3_32: 3,2; c04_cover_g3_42: 4,2; c04_cover_g3_52: 5,2; c04_cover_g3_62: 6,2;
    c04_cover_g3_03: 0,3; c04_cover_g3_13: 1,3; c04_cover_g3_23: 2,3; c04_cover_g3_33: 3,3; c04_cover_g3_43: 4,3; c04_cover_g3_53: 5,3; c04_cover_g3_63: 6,3;
    c04_cover_g3_04: 0,4; c04_cover_g3_14: 1,4; c04_cover_g3_24: 2,4; c04_cover_g3_34: 3,4; c04_cover_g3_44: 4,4; c04_cover_g3_54: 5,4; c04_cover_g3_64: 6,4;
    c04_cover_g3_05: 0,5; c04_cover_g3_15: 1,5; c04_cover_g3_25: 2,5; c04_cover_g3_35: 3,5; c04_cover_g3_45: 4,5; c04_cover_g3_55: 5,5; c04_cover_g3_65: 6,5;
    c04_cover_g3_06: 0,6; c04_cover_g3_16: 1,6; c04_cover_g3_26: 2,6; c04_cover_g3_36: 3,6; c04_cover_g3_46: 4,6; c04_cover_g3_56: 5,6; c04_cover_g3_66: 6,6;
}

// ---- sub-pixel triangles: quarter-pixel lattice of a single pixel --------------------------
// Vertices at k/4, k in [0,4], inside one pixel: the only centre is (1/2, 1/2).  Triangles much
// smaller than a pixel may or may not contain it; quadrupled coordinates keep the oracle exact.

#[kani::proof]
#[kani::unwind(5)]
fn c04_cover_subpixel() {
    let k = [lat(0, 4), lat(0, 4), lat(0, 4), lat(0, 4), lat(0, 4), lat(0, 4)];
    let area2 = edge(k[0], k[1], k[2], k[3], k[4], k[5]);
    kani::assume(area2 != 0);
    let vs = [
        vertex(pt3(k[0] as f32 * 0.25, k[1] as f32 * 0.25, 1.0), ()),
        vertex(pt3(k[2] as f32 * 0.25, k[3] as f32 * 0.25, 1.0), ()),
        vertex(pt3(k[4] as f32 * 0.25, k[5] as f32 * 0.25, 1.0), ()),
    ];
    let mut count = 0u32;
    let mut ok = true;
    let mut rows = 0u32;
    tri_fill(vs, |sl| {
        rows += 1;
        let n = sl.vs.count();
        if n != sl.xs.end.saturating_sub(sl.xs.start) { ok = false; }
        if sl.y != 0 || sl.xs.end > 1 { ok = false; }
        count += n as u32;
    });
    assert!(ok && rows <= 1);
    // the centre in quadrupled coordinates is (2, 2)
    let e0 = edge(k[0], k[1], k[2], k[3], 2, 2);
    let e1 = edge(k[2], k[3], k[4], k[5], 2, 2);
    let e2 = edge(k[4], k[5], k[0], k[1], 2, 2);
    let inside = (e0 > 0 && e1 > 0 && e2 > 0) || (e0 < 0 && e1 < 0 && e2 < 0);
    let outside = (area2 > 0 && (e0 < 0 || e1 < 0 || e2 < 0)) || (area2 < 0 && (e0 > 0 || e1 > 0 || e2 > 0));
    if inside { assert!(count == 1); }
    if outside { assert!(count == 0); }
    assert!(count <= 1);
    kani::cover!(inside && (k[1].max(k[3]).max(k[5]) - k[1].min(k[3]).min(k[5])) == 2, "half a pixel high, centre inside");
    kani::cover!(outside, "centre outside");
}
