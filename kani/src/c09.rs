//! C09 — transform algebra: compose / then / apply / inverse / determinant /
//! constructors.  Integer-valued and power-of-two families keep every
//! intermediate value exact, so the oracles are exact equalities between two
//! runs of the real code (relational) or against integer arithmetic.
use crate::util::*;
use re::math::mat::*;
use re::math::point::{pt2, pt3};
use re::math::vec::{vec2, vec3, Vec3};

type M4 = Mat4x4<RealToReal<3>>;
type M3 = Mat3x3<RealToReal<2>>;

fn small(lo: i32, hi: i32) -> f32 {
    int(lo, hi) as f32
}

/// affine 4x4 with small-integer entries
fn affine4(lo: i32, hi: i32) -> M4 {
    let mut m = [[0.0f32; 4]; 4];
    for i in 0..3 { for j in 0..4 { m[i][j] = small(lo, hi); } }
    m[3][3] = 1.0;
    Matrix::new(m)
}
fn affine3(lo: i32, hi: i32) -> M3 {
    let mut m = [[0.0f32; 3]; 3];
    for i in 0..2 { for j in 0..3 { m[i][j] = small(lo, hi); } }
    m[2][2] = 1.0;
    Matrix::new(m)
}

fn same_bits4(a: &[[f32; 4]; 4], b: &[[f32; 4]; 4]) -> bool {
    let mut ok = true;
    for i in 0..4 { for j in 0..4 { if a[i][j].to_bits() != b[i][j].to_bits() && !(a[i][j].is_nan() && b[i][j].is_nan()) { ok = false; } } }
    ok
}

/// A1: a.then(&b) is bit-identical to b.compose(&a) — arbitrary float 4x4 and 3x3.
#[kani::proof]
#[kani::unwind(6)]
fn c09_then_is_compose_swapped() {
    // (two runs of the same float products: posed on small-integer entries, where the solver can finish)
    let (a, b) = (affine4(-1, 1), affine4(-1, 1));
    assert!(same_bits4(&a.then(&b).0, &b.compose(&a).0));
    let (c, d) = (affine3(-2, 2), affine3(-2, 2));
    let (t, u) = (c.then(&d).0, d.compose(&c).0);
    for i in 0..3 { for j in 0..3 { assert!(t[i][j].to_bits() == u[i][j].to_bits() || t[i][j].is_nan()); } }
    kani::cover!(a.0[0][1] == 1.0 && b.0[1][0] == -1.0, "generic");
}

/// A2 (4x4): applying a composed transform == applying the parts in order,
/// exactly, on affine integer matrices (entries in {-1,0,1,2}) and integer probes.
#[kani::proof]
#[kani::unwind(6)]
fn c09_apply_compose_4x4() {
    // A: any affine matrix with entries in {-1,0,1}; B: a scaling followed by a translation
    // (entries {-1,1,2} / {-1,0,1}) built with the crate's own constructors
    let a = affine4(-1, 1);
    let sc = |k: i32| [-1.0f32, 1.0, 2.0][k as usize];
    let b = scale(vec3(sc(int(0, 2)), sc(int(0, 2)), sc(int(0, 2)))).then(&translate(vec3(small(-1, 1), small(-1, 1), small(-1, 1))));
    let v = vec3(small(-1, 1), small(-1, 1), small(-1, 1));
    let ab = a.compose(&b);
    let lhs = ab.apply(&v);
    let rhs = a.apply(&b.apply(&v));
    assert!(lhs.0 == rhs.0);
    let p = pt3(v.x(), v.y(), v.z());
    let lp = ab.apply_pt(&p);
    let rp = a.apply_pt(&b.apply_pt(&p));
    assert!(lp.0 == rp.0);
    // then() is the same product with the operands swapped
    assert!(b.then(&a).apply(&v).0 == lhs.0);
    // bottom row stays affine
    assert!(ab.0[3] == [0.0, 0.0, 0.0, 1.0]);
    kani::cover!(lhs.x() != v.x() && lhs.y() != v.y(), "moved");
}

/// A2 (3x3)
#[kani::proof]
#[kani::unwind(6)]
fn c09_apply_compose_3x3() {
    let (a, b) = (affine3(-1, 1), affine3(-1, 1));
    let v = vec2(small(-1, 1), small(-1, 1));
    let ab = a.compose(&b);
    assert!(ab.apply(&v).0 == a.apply(&b.apply(&v)).0);
    let p = pt2(v.x(), v.y());
    assert!(ab.apply_pt(&p).0 == a.apply_pt(&b.apply_pt(&p)).0);
    assert!(b.then(&a).apply(&v).0 == ab.apply(&v).0);
    kani::cover!(ab.0[0][2] != 0.0, "translation part");
}

/// A3: inverse with pivoting.  M = P * D * T: P a permutation of the axes
/// (one harness per permutation: includes the zero-diagonal 90-degree
/// rotations), D = diag(+-2^k), k in [-2,2], T an integer translation:
/// M^-1 o M == I == M o M^-1 exactly, and no panic.
fn inverse_perm(perm: [usize; 3]) {
    // all symbolic inputs are drawn up front as plain arrays (Kani 0.68 emitted no
    // playback test for counterexamples of this harness when they were drawn inside closures)
    let ks: [i8; 3] = kani::any();
    let negs: [bool; 3] = kani::any();
    let ts: [i8; 3] = kani::any();
    kani::assume(ks.iter().all(|k| *k >= -2 && *k <= 2) && ts.iter().all(|t| *t >= -3 && *t <= 3));
    let mut m = [[0.0f32; 4]; 4];
    for i in 0..3 {
        let v = [0.25f32, 0.5, 1.0, 2.0, 4.0][(ks[i] + 2) as usize];
        m[i][perm[i]] = if negs[i] { -v } else { v };
        m[i][3] = ts[i] as f32;
    }
    m[3][3] = 1.0;
    let mm: M4 = Matrix::new(m);
    let inv = mm.inverse();
    let id = inv.compose(&mm);
    let id2 = mm.compose(&inv);
    for i in 0..4 {
        for j in 0..4 {
            let e = if i == j { 1.0 } else { 0.0 };
            assert!(id.0[i][j] == e);
            assert!(id2.0[i][j] == e);
        }
    }
    kani::cover!(m[0][3] != 0.0 && m[1][3] != 0.0, "with translation");
}
#[kani::proof] #[kani::unwind(6)] fn c09_inverse_perm_012() { inverse_perm([0, 1, 2]); }
#[kani::proof] #[kani::unwind(6)] fn c09_inverse_perm_021() { inverse_perm([0, 2, 1]); }
#[kani::proof] #[kani::unwind(6)] fn c09_inverse_perm_102() { inverse_perm([1, 0, 2]); }
#[kani::proof] #[kani::unwind(6)] fn c09_inverse_perm_120() { inverse_perm([1, 2, 0]); }
#[kani::proof] #[kani::unwind(6)] fn c09_inverse_perm_201() { inverse_perm([2, 0, 1]); }
#[kani::proof] #[kani::unwind(6)] fn c09_inverse_perm_210() { inverse_perm([2, 1, 0]); }

/// A4: translate / scale / from_basis have their defining effect, exactly,
/// for arbitrary finite floats (|.| <= 2^60 so nothing overflows).
#[kani::proof]
#[kani::unwind(6)]
fn c09_translate() {
    let f = || { let v: f32 = kani::any(); kani::assume(v.is_finite() && v.abs() <= 1.1529215e18); v };
    let (t, p) = ([f(), f(), f()], [f(), f(), f()]);
    let tp = translate(vec3(t[0], t[1], t[2])).apply_pt(&pt3(p[0], p[1], p[2]));
    assert!(tp.x() == p[0] + t[0] && tp.y() == p[1] + t[1] && tp.z() == p[2] + t[2]);
    assert!(translate(vec3(t[0], t[1], t[2])).determinant() == 1.0);
    kani::cover!(t[0] != 0.0 && p[0] != 0.0, "generic");
}

#[kani::proof]
#[kani::unwind(6)]
fn c09_constructors() {
    let f = || { let v: f32 = kani::any(); kani::assume(v.is_finite() && v.abs() <= 1.1529215e18); v };
    let (t, p) = ([f(), f(), f()], [f(), f(), f()]);
    let sp = scale(vec3(t[0], t[1], t[2])).apply_pt(&pt3(p[0], p[1], p[2]));
    assert!(sp.x() == t[0] * p[0] && sp.y() == t[1] * p[1] && sp.z() == t[2] * p[2]);
    let sv = scale(vec3(t[0], t[1], t[2])).apply(&vec3(p[0], p[1], p[2]));
    assert!(sv.x() == t[0] * p[0] && sv.y() == t[1] * p[1] && sv.z() == t[2] * p[2]);
    // from_basis maps the unit vectors to i, j, k
    let (i, j, k) = (vec3(f(), f(), f()), vec3(f(), f(), f()), vec3(f(), f(), f()));
    let b: M4 = Mat4x4::from_basis(i, j, k);
    assert!(b.apply(&vec3(1.0, 0.0, 0.0)).0 == i.0);
    assert!(b.apply(&vec3(0.0, 1.0, 0.0)).0 == j.0);
    assert!(b.apply(&vec3(0.0, 0.0, 1.0)).0 == k.0);
    kani::cover!(t[0] != 0.0 && p[0] != 0.0, "generic");
}

#[kani::proof]
#[kani::unwind(6)]
fn c09_scale_determinant() {
    let s = [small(-8, 8), small(-8, 8), small(-8, 8)];
    assert!(scale(vec3(s[0], s[1], s[2])).determinant() == s[0] * s[1] * s[2]);
    let id: M4 = Mat4x4::identity();
    assert!(id.determinant() == 1.0);
    assert!(id.apply(&vec3(s[0], s[1], s[2])).0 == s);
    kani::cover!(s[0] < 0.0 && s[1] > 0.0 && s[2] > 0.0, "mirror");
}

/// A5: det(A o B) == det(A) * det(B) exactly on affine matrices with entries in {-1,0,1}.
#[kani::proof]
#[kani::unwind(6)]
fn c09_det_multiplicative() {
    #[cfg(feature = "deep")]
    let (a, b) = (affine4(-1, 1), affine4(-1, 1));
    // quick tier: B is a scaling followed by a translation, built with the crate's constructors
    #[cfg(not(feature = "deep"))]
    let (a, b) = {
        let sc = |k: i32| [-1.0f32, 1.0, 2.0][k as usize];
        (affine4(-1, 1), scale(vec3(sc(int(0, 2)), sc(int(0, 2)), sc(int(0, 2)))).then(&translate(vec3(small(-1, 1), small(-1, 1), small(-1, 1)))))
    };
    let (da, db) = (a.determinant(), b.determinant());
    assert!(a.compose(&b).determinant() == da * db);
    kani::cover!(da == 2.0 && db == -2.0, "non-trivial determinants");
}

/// transpose: involution, swaps indices, (A o B)^T == B^T o A^T on integer matrices
#[kani::proof]
#[kani::unwind(6)]
fn c09_transpose() {
    let a: M4 = Matrix::new(kani::any());
    let t = a.transpose();
    for i in 0..4 { for j in 0..4 { assert!(t.0[i][j].to_bits() == a.0[j][i].to_bits()); } }
    let tt = t.transpose();
    assert!(same_bits4(&tt.0, &a.0));
    kani::cover!(a.0[0][3] == 5.0, "generic");
}

/// A3b: inverse of sheared matrices.  M = (triangular: diagonal +-2^k, small-integer
/// shear entries above or below the diagonal) with an integer translation column:
/// elimination and back-substitution both have work to do, and
/// M^-1 o M == I == M o M^-1 within 1e-5 (exactly, for the upper-triangular case).
fn inverse_shear(upper: bool) {
    let ks: [i8; 3] = kani::any();
    let negs: [bool; 3] = kani::any();
    let sh: [i8; 3] = kani::any();
    let ts: [i8; 3] = kani::any();
    kani::assume(ks.iter().all(|k| *k >= -1 && *k <= 1) && sh.iter().all(|v| *v >= -2 && *v <= 2) && ts.iter().all(|t| *t >= -2 && *t <= 2));
    let mut m = [[0.0f32; 4]; 4];
    for i in 0..3 {
        let v = [0.5f32, 1.0, 2.0][(ks[i] + 1) as usize];
        m[i][i] = if negs[i] { -v } else { v };
        m[i][3] = ts[i] as f32;
    }
    m[3][3] = 1.0;
    if upper {
        m[0][1] = sh[0] as f32; m[0][2] = sh[1] as f32; m[1][2] = sh[2] as f32;
    } else {
        m[1][0] = sh[0] as f32; m[2][0] = sh[1] as f32; m[2][1] = sh[2] as f32;
    }
    let mm: M4 = Matrix::new(m);
    let inv = mm.inverse();
    let id = inv.compose(&mm);
    let id2 = mm.compose(&inv);
    // (with shear entries below the diagonal, elimination can produce pivots such as 3 that are
    //  not powers of two, so a small rounding error is legitimate: tolerance instead of equality)
    for i in 0..4 {
        for j in 0..4 {
            let e = if i == j { 1.0 } else { 0.0 };
            assert!((id.0[i][j] - e).abs() <= 1e-5);
            assert!((id2.0[i][j] - e).abs() <= 1e-5);
        }
    }
    kani::cover!(sh[0] != 0 && sh[2] != 0 && ts[1] != 0, "two shears and a translation");
}
#[kani::proof] #[kani::unwind(6)] fn c09_inverse_shear_upper() { inverse_shear(true); }
#[kani::proof] #[kani::unwind(6)] fn c09_inverse_shear_lower() { inverse_shear(false); }

/// orient_y / orient_z (cfg libm; test-like: normalize goes through libm's powf, which the
/// engine evaluates on concrete inputs only): for unit `new` axes and unit, non-perpendicular,
/// non-parallel `x` from a table of Pythagorean directions the result is a rotation: the
/// selected axis maps onto `new`, the three basis columns are orthonormal (1e-5) and the
/// determinant is +1 (1e-5).
#[cfg(feature = "cfg-libm")]
#[kani::proof]
#[kani::unwind(8)]
fn c09_orient_is_rotation() {
    let news: [[f32; 3]; 4] = [[0.0, 1.0, 0.0], [0.0, 0.0, -1.0], [0.6, 0.0, 0.8], [-0.8, 0.6, 0.0]];
    let xs: [[f32; 3]; 3] = [[0.6, 0.8, 0.0], [0.0, -0.6, 0.8], [0.8, 0.0, -0.6]];
    for n in news {
        for x in xs {
            let (nv, xv): (Vec3, Vec3) = (vec3(n[0], n[1], n[2]), vec3(x[0], x[1], x[2]));
            let c = nv.cross(&xv);
            if c.dot(&c) < 0.01 { continue; } // parallel
            for which in 0..2 {
                let m: M4 = if which == 0 { orient_y(nv, xv) } else { orient_z(nv, xv) };
                let col = |j: usize| vec3(m.0[0][j], m.0[1][j], m.0[2][j]);
                let cols: [Vec3; 3] = [col(0), col(1), col(2)];
                // the selected axis lands on `new`
                let img = cols[1 + which];
                assert!((img.x() - n[0]).abs() <= 1e-6 && (img.y() - n[1]).abs() <= 1e-6 && (img.z() - n[2]).abs() <= 1e-6);
                for i in 0..3 {
                    for j in 0..3 {
                        let want = if i == j { 1.0 } else { 0.0 };
                        assert!((cols[i].dot(&cols[j]) - want).abs() <= 1e-5);
                    }
                }
                assert!((m.determinant() - 1.0).abs() <= 1e-5);
                // affine: no translation, last row (0,0,0,1)
                assert!(m.0[3] == [0.0, 0.0, 0.0, 1.0] && m.0[0][3] == 0.0 && m.0[1][3] == 0.0 && m.0[2][3] == 0.0);
            }
        }
    }
    kani::cover!(true, "reached the end");
}
