//! C08 — projection, viewport and camera.
use crate::util::*;
use re::math::mat::*;
use re::math::point::{pt2, pt3, Point2u};
use re::math::vec::vec3;
use re::render::cam::Camera;
use re::render::{NdcToScreen, ViewToProj, WorldToView};
use re::util::rect::Rect;

fn pow2(lo: i32, hi: i32) -> f32 {
    let k = int(lo, hi);
    // 2^k exactly
    f32::from_bits(((127 + k) as u32) << 23)
}

/// V1 (dyadic family): f, a, near, far/near, z powers of two; x, y small
/// integers.  Every matrix element and product is then exact, so:
/// w == z; x_c == f*x; y_c == f*a*y; near -> z_c == -w; far -> z_c == +w;
/// depth order preserved; |x_c| <= w  <=>  |f*x| <= z.
#[kani::proof]
#[kani::unwind(6)]
fn c08_perspective_dyadic() {
    let (f, a) = (pow2(-2, 2), pow2(-2, 2));
    let n = pow2(-4, 4);
    let ratio = pow2(1, 10);
    let far = n * ratio;
    let m = perspective(f, a, n..far);
    let (x, y) = (int(-8, 8) as f32, int(-8, 8) as f32);
    let pn = m.apply(&pt3(x, y, n));
    let pf = m.apply(&pt3(x, y, far));
    assert!(pn.w() == n && pf.w() == far);
    assert!(pn.x() == f * x && pn.y() == f * a * y);
    // near plane -> -1, far plane -> +1 in NDC (within 1e-6: the two z terms are rounded once each)
    assert!((pn.z() / pn.w() + 1.0).abs() <= 1e-6);
    assert!((pf.z() / pf.w() - 1.0).abs() <= 1e-6);
    // an interior depth z = n * 2^j stays inside and keeps its order
    let j = int(0, 10);
    let z = n * f32::from_bits(((127 + j) as u32) << 23);
    kani::assume(z <= far);
    let pz = m.apply(&pt3(x, y, z));
    assert!(pz.w() == z);
    let ndc = pz.z() / pz.w();
    assert!(ndc >= -1.0 - 1e-6 && ndc <= 1.0 + 1e-6);
    assert!(ndc >= pn.z() / pn.w() - 1e-6 && ndc <= pf.z() / pf.w() + 1e-6);
    // side planes: inside the clip volume iff inside the view pyramid
    assert!((pz.x().abs() <= pz.w()) == ((f * x).abs() <= z));
    assert!((pz.y().abs() <= pz.w()) == ((f * a * y).abs() <= z));
    kani::cover!(ratio == 1024.0 && j == 5, "far/near = 1024, mid depth");
    kani::cover!(pz.x().abs() > pz.w(), "outside the side planes");
}

/// perspective() rejects non-positive / empty parameters
#[kani::proof]
#[kani::should_panic]
fn c08_perspective_rejects() {
    let (f, a, n, far): (f32, f32, f32, f32) = (kani::any(), kani::any(), kani::any(), kani::any());
    kani::assume(f.is_finite() && a.is_finite() && n.is_finite() && far.is_finite());
    kani::assume(f <= 0.0 || a <= 0.0 || n <= 0.0 || far <= n);
    let m = perspective(f, a, n..far);
    kani::cover!(true, "never: invalid projection parameters accepted");
}

/// orthographic: the corners of the box map to (-1,-1,-1) and (1,1,1), w == 1,
/// monotone — boxes with integer corners and power-of-two extents (exact).
#[kani::proof]
#[kani::unwind(6)]
fn c08_orthographic_dyadic() {
    let lo = [int(-8, 8) as f32, int(-8, 8) as f32, int(-8, 8) as f32];
    let ext = [pow2(0, 4), pow2(0, 4), pow2(0, 4)];
    let hi = [lo[0] + ext[0], lo[1] + ext[1], lo[2] + ext[2]];
    let m = orthographic(pt3(lo[0], lo[1], lo[2]), pt3(hi[0], hi[1], hi[2]));
    let a = m.apply(&pt3(lo[0], lo[1], lo[2]));
    let b = m.apply(&pt3(hi[0], hi[1], hi[2]));
    assert!(a.0 == [-1.0, -1.0, -1.0, 1.0]);
    assert!(b.0 == [1.0, 1.0, 1.0, 1.0]);
    // centre -> origin
    let c = m.apply(&pt3(lo[0] + ext[0] / 2.0, lo[1] + ext[1] / 2.0, lo[2] + ext[2] / 2.0));
    assert!(c.0 == [0.0, 0.0, 0.0, 1.0]);
    kani::cover!(ext[0] == 16.0 && lo[0] == -8.0, "wide box");
}

/// V2 viewport(l,t..r,b), symbolic u32 <= 4096: NDC (-1,-1) -> (l,t), (1,1) -> (r,b),
/// centre -> centre, exactly; z passes through.
#[kani::proof]
#[kani::unwind(6)]
fn c08_viewport_matrix() {
    let (l, t, r, b): (u32, u32, u32, u32) = (kani::any(), kani::any(), kani::any(), kani::any());
    kani::assume(l <= r && r <= 4096 && t <= b && b <= 4096);
    let m = viewport(pt2(l, t)..pt2(r, b));
    let z: f32 = kani::any();
    kani::assume(z.is_finite() && z.abs() < 1e6);
    let p0 = m.apply(&vec3(-1.0, -1.0, z));
    let p1 = m.apply(&vec3(1.0, 1.0, z));
    let pc = m.apply(&vec3(0.0, 0.0, z));
    assert!(p0.x() == l as f32 && p0.y() == t as f32 && p0.z() == z);
    assert!(p1.x() == r as f32 && p1.y() == b as f32 && p1.z() == z);
    assert!(pc.x() == (l + r) as f32 / 2.0 && pc.y() == (t + b) as f32 / 2.0);
    kani::cover!(l == 3 && r == 4096, "odd width");
}

// ---- Rect (pure integer): point-membership oracle ------------------------

fn opt(n: u32) -> Option<u32> {
    let some: bool = kani::any();
    if some { let v: u32 = kani::any(); kani::assume(v <= n); Some(v) } else { None }
}
fn any_rect(n: u32) -> Rect<u32> {
    Rect { left: opt(n), top: opt(n), right: opt(n), bottom: opt(n) }
}
fn member(r: &Rect<u32>, x: u32, y: u32) -> bool {
    r.left.map_or(true, |l| x >= l) && r.right.map_or(true, |v| x < v) && r.top.map_or(true, |t| y >= t) && r.bottom.map_or(true, |v| y < v)
}

/// Rect: contains == membership; intersect contains exactly the common points;
/// is_empty <=> no member (given bounded rects); width/height.
#[kani::proof]
fn c08_rect_algebra() {
    let (a, b) = (any_rect(8), any_rect(8));
    let (x, y): (u32, u32) = (kani::any(), kani::any());
    kani::assume(x <= 9 && y <= 9);
    assert!(a.contains(x, y) == member(&a, x, y));
    let i = a.intersect(&b);
    assert!(i.contains(x, y) == (member(&a, x, y) && member(&b, x, y)));
    if a.is_empty() { assert!(!member(&a, x, y)); }
    if let (Some(l), Some(r)) = (a.left, a.right) { assert!(a.width() == Some(r.saturating_sub(l))); } else { assert!(a.width().is_none()); }
    if let (Some(t), Some(bb)) = (a.top, a.bottom) { assert!(a.height() == Some(bb.saturating_sub(t))); } else { assert!(a.height().is_none()); }
    // a fully bounded rect with positive extents is not empty
    if let (Some(l), Some(r), Some(t), Some(bb)) = (a.left, a.right, a.top, a.bottom) {
        assert!(a.is_empty() == (l >= r || t >= bb));
    }
    kani::cover!(a.left.is_none() && b.left.is_some() && i.left == b.left, "unbounded meets bounded");
    kani::cover!(i.is_empty() && !a.is_empty() && !b.is_empty(), "disjoint");
}

// ---- Camera ----------------------------------------------------------------

/// V3: Camera::new(d).viewport(bounds): the camera draws into bounds ∩ frame:
/// dims and matrix are those of the intersection; an empty intersection gives
/// a zero-area viewport inside the frame.
#[kani::proof]
#[kani::unwind(6)]
fn c08_camera_viewport() {
    let (w, h): (u32, u32) = (kani::any(), kani::any());
    kani::assume(w >= 1 && w <= 64 && h >= 1 && h <= 64);
    let (l, t, r, b): (u32, u32, u32, u32) = (kani::any(), kani::any(), kani::any(), kani::any());
    kani::assume(l <= 100 && t <= 100 && r <= 100 && b <= 100);
    let form: u8 = kani::any();
    kani::assume(form < 3);
    let cam = Camera::new((w, h));
    assert!(cam.dims == (w, h));
    let cam = match form {
        0 => cam.viewport((l..r, t..b)),
        1 => cam.viewport((l.., ..b)),
        _ => cam.viewport(pt2(l, t).to_vec()..pt2(r, b).to_vec()),
    };
    // model: intersection with the frame
    let (ml, mt) = match form { 1 => (l.min(w), 0), _ => (l.min(w), t.min(h)) };
    let (mr, mb) = match form { 1 => (w, b.min(h)), _ => (r.min(w), b.min(h)) };
    let (vw, vh) = (mr.saturating_sub(ml), mb.saturating_sub(mt));
    assert!(cam.dims == (vw, vh));
    // where the NDC corners land
    let p0 = cam.viewport.apply(&vec3(-1.0, -1.0, 0.0));
    let p1 = cam.viewport.apply(&vec3(1.0, 1.0, 0.0));
    // always inside the frame
    assert!(p0.x() >= 0.0 && p0.y() >= 0.0 && p1.x() <= w as f32 && p1.y() <= h as f32);
    assert!(p1.x() - p0.x() == vw as f32 && p1.y() - p0.y() == vh as f32);
    if vw > 0 && vh > 0 {
        assert!(p0.x() == ml as f32 && p0.y() == mt as f32);
    }
    kani::cover!(l > w, "viewport entirely right of the frame");
    kani::cover!(r > w && l < w && vw > 0, "partly outside");
    kani::cover!(l > r, "inverted request");
}

/// V4: Camera with a plain matrix as its mode: world_to_project == mode.then(project),
/// perspective() passes aspect = dims.0 / dims.1.
#[kani::proof]
#[kani::unwind(6)]
fn c08_camera_projection() {
    let (w, h): (u32, u32) = (kani::any(), kani::any());
    kani::assume(w >= 1 && w <= 64 && h >= 1 && h <= 64);
    let f = pow2(-2, 2);
    let cam = Camera::new((w, h)).perspective(f, 0.5..64.0);
    let want = perspective(f, w as f32 / h as f32, 0.5..64.0);
    for i in 0..4 { for j in 0..4 { assert!(cam.project.0[i][j] == want.0[i][j]); } }
    let t = [int(-3, 3) as f32, int(-3, 3) as f32, int(-3, 3) as f32];
    let view: Mat4x4<WorldToView> = translate(vec3(t[0], t[1], t[2])).to();
    let cam = cam.mode(view);
    let wp = cam.world_to_project();
    let q = pt3(int(-3, 3) as f32, int(-3, 3) as f32, int(1, 8) as f32);
    let direct = wp.apply(&q);
    let staged = cam.project.apply(&view.apply_pt(&q));
    // translation by integers and a dyadic-times-ratio projection: compare within rounding
    for i in 0..4 { assert!((direct.0[i] - staged.0[i]).abs() <= 1e-4 * (1.0 + staged.0[i].abs())); }
    let o = Camera::new((w, h)).orthographic(pt3(-1.0, -1.0, 0.0)..pt3(1.0, 1.0, 2.0));
    let wo = orthographic(pt3(-1.0, -1.0, 0.0), pt3(1.0, 1.0, 2.0));
    for i in 0..4 { for j in 0..4 { assert!(o.project.0[i][j] == wo.0[i][j]); } }
    kani::cover!(w == 64 && h == 48, "4:3");
}

/// Rect::from((H, V)) for *every* kind of bound pair (Included / Excluded /
/// Unbounded on either end, as the RangeBounds impl of a (Bound, Bound) tuple):
/// the rect contains exactly the points both ranges contain.
#[kani::proof]
fn c08_rect_from_bounds() {
    use core::ops::{Bound, RangeBounds};
    let mk = || -> Bound<u32> {
        let k: u8 = kani::any();
        let v: u32 = kani::any();
        kani::assume(k < 3 && v <= 8);
        match k { 0 => Bound::Included(v), 1 => Bound::Excluded(v), _ => Bound::Unbounded }
    };
    let (h, v) = ((mk(), mk()), (mk(), mk()));
    let r = Rect::from((h, v));
    let (x, y): (u32, u32) = (kani::any(), kani::any());
    kani::assume(x <= 10 && y <= 10);
    assert!(r.contains(x, y) == (h.contains(&x) && v.contains(&y)));
    kani::cover!(matches!(h.0, Bound::Excluded(_)) && matches!(v.1, Bound::Included(_)) && r.contains(x, y), "excluded start, included end");
}

/// First-person camera (cfg libm: sin/cos are libm's software routines, which the engine
/// evaluates on the *concrete* heading table below; position and displacement are symbolic):
/// translate(delta) moves the camera by delta.y straight up, by delta.z along the *horizontal*
/// heading (cos az, 0, sin az) whatever the pitch, and by |delta.x| along the horizontal axis
/// perpendicular to it.
#[cfg(feature = "cfg-libm")]
fn first_person_translate(az: f32, cx: f32, sz: f32, alt: f32) {
    use re::math::angle::{spherical, turns};
    use re::math::vec::Vec3;
    use re::render::cam::FirstPerson;
    let d: [f32; 6] = kani::any();
    kani::assume(d.iter().all(|v| v.is_finite() && v.abs() <= 1024.0));
    let pos: Vec3 = vec3(d[0], d[1], d[2]);
    let mut fp = FirstPerson { pos, heading: spherical(1.0, turns(az), turns(alt)) };
    fp.translate(vec3(d[3], d[4], d[5]));
    let m = fp.pos - pos;
    let tol = 1e-2;
    assert!((m.y() - d[4]).abs() <= tol);
    assert!((m.x() * cx + m.z() * sz - d[5]).abs() <= tol);
    assert!(((m.x() * sz - m.z() * cx).abs() - d[3].abs()).abs() <= tol);
    kani::cover!(d[5] > 100.0 && d[3] < -100.0, "forward and sideways");
}
#[cfg(feature = "cfg-libm")] #[kani::proof] #[kani::unwind(8)] fn c08_first_person_translate_level() { first_person_translate(0.5, -1.0, 0.0, 0.0); }
#[cfg(feature = "cfg-libm")] #[kani::proof] #[kani::unwind(8)] fn c08_first_person_translate_up() { first_person_translate(0.25, 0.0, 1.0, 1.0 / 12.0); }
#[cfg(feature = "cfg-libm")] #[kani::proof] #[kani::unwind(8)] fn c08_first_person_translate_down() { first_person_translate(0.0, 1.0, 0.0, -1.0 / 6.0); }
#[cfg(feature = "cfg-libm")] #[kani::proof] #[kani::unwind(8)] fn c08_first_person_translate_diagonal() { first_person_translate(0.125, 0.70710678, 0.70710678, 1.0 / 12.0); }
