//! C02 — the units that do unchecked indexing stay inside the viewport
//! (P1: half-pixel rounding + scan(); P3 lives in c06.rs; P2 in c04.rs),
//! C07 — face orientation test, C06 — depth sorting (via cfg(kani) hooks).
use crate::util::*;
use re::geom::{vertex, Tri};
use re::math::point::pt3;
use re::math::vec::ProjVec4;
use re::render::clip::ClipVert;
use re::render::ctx::DepthSort;
use re::render::raster::{scan, verif_hooks::round_up_to_half, ScreenPt};
use re::render::verif_hooks::{depth_sort, is_backface};

/// round_up_to_half(x) is the first half-integer k + 0.5 at or beyond x
/// (the implementation takes the strictly greater one) - for every float in [-0.5, 2^22) (the range pixel coordinates live in;
/// bare cfg truncates instead of flooring, which differs only below -0.5).
#[kani::proof]
fn c02_round_up_to_half() {
    let x: f32 = kani::any();
    kani::assume(x >= -0.5 && x < 4194304.0);
    let r = round_up_to_half(x);
    let k = r - 0.5;
    assert!((k as i32) as f32 == k); // half-integer
    // the first pixel centre at or beyond the edge: x in [r - 1, r] (r - 1 is exact).  Whether a centre
    // exactly on the edge counts (r == x) or not (r == x + 1) is inside the property's tolerance band,
    // so both conventions are accepted; the code's convention is the strict one (see the cover below).
    assert!(r >= x);
    assert!(r - 1.0 <= x);
    // exclusive pixel index: centre (k + 0.5) is the first centre at or right of... x
    assert!((r as usize) as f32 == k);
    kani::cover!(x > 100.25 && x < 100.5, "just left of a centre");
    kani::cover!(x == 7.5 && r == 8.5, "exactly on a centre: the next one is taken");
}

fn near(lo: f32, hi: f32) -> f32 {
    let v: f32 = kani::any();
    kani::assume(v >= lo - 1e-3 && v <= hi + 1e-3);
    v
}

/// P1 margin lemma through scan(): a trapezoid whose edges are within 1e-3 of
/// a pixel rectangle [l,r) x [t,b) inside [0,64)^2, up to ROWS rows tall: every
/// scanline has t <= y < b and l <= xs.start, max(xs.start, xs.end) <= r.
fn scan_margin(max_dy: f32, max_rows: u32) {
    let (l, r, t, b): (u8, u8, u8, u8) = (kani::any(), kani::any(), kani::any(), kani::any());
    kani::assume(l < r && r <= 64 && t < b && b <= 64);
    let (lf, rf, tf, bf) = (l as f32, r as f32, t as f32, b as f32);
    let (y0, y1) = (near(tf, bf), near(tf, bf));
    kani::assume(y0 < y1 && y1 - y0 <= max_dy);
    let (lx0, lx1, rx0, rx1) = (near(lf, rf), near(lf, rf), near(lf, rf), near(lf, rf));
    kani::assume(lx0 <= rx0 && lx1 <= rx1);
    let l0 = (pt3(lx0, y0, 1.0), ());
    let l1 = (pt3(lx1, y1, 1.0), ());
    let r0 = (pt3(rx0, y0, 1.0), ());
    let r1 = (pt3(rx1, y1, 1.0), ());
    let mut rows = 0u32;
    let mut ok = true;
    let mut last: i64 = -1;
    for sl in scan(y0..y1, &l0..&l1, &r0..&r1) {
        if !(sl.y >= t as usize && sl.y < b as usize) { ok = false; }
        if !(sl.xs.start >= l as usize) { ok = false; }
        if !(sl.xs.start.max(sl.xs.end) <= r as usize) { ok = false; }
        if (sl.y as i64) <= last { ok = false; }
        last = sl.y as i64;
        rows += 1;
    }
    assert!(ok);
    kani::cover!(rows == max_rows, "tallest case");
    kani::cover!(rx0 > rf && rows > 0, "right edge beyond the border");
    kani::cover!(y0 < tf && rows > 0, "top edge above the border");
}
/// quick: at most one pixel row (dy <= 1)
#[kani::proof]
#[kani::unwind(4)]
fn c02_scan_margin_1row() {
    scan_margin(1.0, 1);
}
/// thorough: up to three rows
#[kani::proof]
#[kani::unwind(5)]
fn c02_scan_margin() {
    scan_margin(2.5, 3);
}

/// is_backface on the half-pixel lattice of a 4x4 (quick) / 16x16 (thorough) screen: swapping two
/// vertices flips the answer, rotating them keeps it, and it equals the sign
/// of the exact integer orientation; degenerate triangles are neither.
#[kani::proof]
fn c07_backface_orientation() {
    #[cfg(feature = "deep")]
    const M: i32 = 32;
    #[cfg(not(feature = "deep"))]
    const M: i32 = 8;
    let k: [i32; 6] = [int(0, M), int(0, M), int(0, M), int(0, M), int(0, M), int(0, M)];
    let p = |i: usize| vertex(pt3(k[2 * i] as f32 * 0.5, k[2 * i + 1] as f32 * 0.5, 1.0), ());
    let area2 = (k[2] - k[0]) * (k[5] - k[1]) - (k[3] - k[1]) * (k[4] - k[0]);
    let abc = is_backface(&[p(0), p(1), p(2)]);
    let acb = is_backface(&[p(0), p(2), p(1)]);
    let bca = is_backface(&[p(1), p(2), p(0)]);
    let cab = is_backface(&[p(2), p(0), p(1)]);
    assert!(abc == (area2 > 0));
    assert!(acb == (area2 < 0));
    assert!(bca == abc && cab == abc);
    if area2 != 0 { assert!(abc != acb); } else { assert!(!abc && !acb); }
    kani::cover!(area2 > 0, "one winding");
    kani::cover!(area2 < 0, "other winding");
}

/// for arbitrary finite float coordinates the two vertex orders never both count as backfaces
#[kani::proof]
fn c07_backface_antisymmetric() {
    let c: [f32; 6] = kani::any();
    kani::assume(c.iter().all(|v| v.is_finite() && v.abs() <= 1e6));
    let p = |i: usize| vertex(pt3(c[2 * i], c[2 * i + 1], 1.0), ());
    let abc = is_backface(&[p(0), p(1), p(2)]);
    let acb = is_backface(&[p(0), p(2), p(1)]);
    assert!(!(abc && acb));
    kani::cover!(abc, "back");
    kani::cover!(!abc && !acb, "edge-on");
}

/// depth_sort orders triangles by summed z: FrontToBack ascending, BackToFront
/// descending; the result is a permutation (3 triangles, symbolic small-integer depths).
#[kani::proof]
#[kani::unwind(12)]
fn c06_depth_sort_orders() {
    // (inputs drawn as one i8 array: with three separate i32 draws Kani 0.68 failed to emit a playback test here)
    // zz[0..3]: depths; zz[3..9]: per-triangle x, y positions, which must not influence the order
    // (w = 1 throughout, so that ordering by z, by z/w or by view depth are not told apart)
    let zz: [i8; 9] = kani::any();
    kani::assume(zz.iter().all(|v| *v >= -8 && *v <= 8));
    let z: [i32; 3] = [zz[0] as i32, zz[1] as i32, zz[2] as i32];
    kani::assume(z[0] != z[1] && z[1] != z[2] && z[0] != z[2]);
    let mk = |i: usize| {
        let d = z[i] as f32;
        let (x, y) = (zz[3 + 2 * i] as f32, zz[4 + 2 * i] as f32);
        let v = |dz: f32| ClipVert::new(vertex(ProjVec4::new([x + dz, y - dz, d + dz, 1.0]), i as u32));
        Tri([v(-0.25), v(0.0), v(0.25)])
    };
    let mut tris = [mk(0), mk(1), mk(2)];
    let front: bool = kani::any();
    depth_sort(&mut tris, if front { DepthSort::FrontToBack } else { DepthSort::BackToFront });
    let id = |t: &Tri<ClipVert<u32>>| t.0[0].attrib as usize;
    let (a, b, c) = (id(&tris[0]), id(&tris[1]), id(&tris[2]));
    assert!(a != b && b != c && a != c && a < 3 && b < 3 && c < 3);
    if front { assert!(z[a] < z[b] && z[b] < z[c]); } else { assert!(z[a] > z[b] && z[b] > z[c]); }
    kani::cover!(front && a == 2, "reordered");
}

/// P4: perspective divide + viewport transform, exactly as render() does them:
/// a clip-space vertex with |x|, |y| <= w and w in [2^-10, 2^10] lands inside
/// the viewport rectangle [l,r] x [t,b] (within 1e-3 px) with a positive,
/// finite reciprocal depth - the precondition of the margin lemma (P1).
#[kani::proof]
#[kani::unwind(6)]
fn c02_divide_and_viewport() {
    use re::math::mat::viewport;
    use re::math::point::pt2;
    use re::math::vary::ZDiv;
    use re::math::vec::vec3;
    let (l, t, r, b): (u32, u32, u32, u32) = (kani::any(), kani::any(), kani::any(), kani::any());
    kani::assume(l <= r && r <= 4096 && t <= b && b <= 4096);
    let (x, y, w): (f32, f32, f32) = (kani::any(), kani::any(), kani::any());
    kani::assume(w >= 0.0009765625 && w <= 1024.0);
    kani::assume(x >= -w && x <= w && y >= -w && y <= w);
    // as in render(): (x, y, 1) / w, then the viewport matrix
    let ndc = vec3(x, y, 1.0).z_div(w);
    assert!(ndc.x() >= -1.0 && ndc.x() <= 1.0 && ndc.y() >= -1.0 && ndc.y() <= 1.0);
    let p = viewport(pt2(l, t)..pt2(r, b)).apply(&ndc).to_pt();
    assert!(p.x() >= l as f32 - 1e-3 && p.x() <= r as f32 + 1e-3);
    assert!(p.y() >= t as f32 - 1e-3 && p.y() <= b as f32 + 1e-3);
    assert!(p.z() > 0.0 && p.z().is_finite());
    kani::cover!(x == w && l == 3 && r == 1920, "right clip plane, odd viewport");
    kani::cover!(x == -w && y == w, "corner");
}
