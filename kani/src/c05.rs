//! C05 — fragments carry correctly interpolated, perspective-divided values.
use crate::c04::{classify, edge, lat, G};
use crate::util::*;
use re::geom::vertex;
use re::math::color::{rgb, Color3f};
use re::math::point::pt3;
use re::math::vary::{Iter as VIter, Vary, ZDiv};
use re::math::vec::{vec2, vec3, Vec2, Vec3};
use re::render::raster::{tri_fill, Frag, Scanline};
use re::render::Screen;

fn fin(lo: f32, hi: f32) -> f32 {
    let v: f32 = kani::any();
    kani::assume(v >= lo && v <= hi);
    v
}

/// F3, scalar attribute: on a Scanline with arbitrary start position, arbitrary
/// attribute start/step, and reciprocal depths z0 = 2^k and 2 z0 (exact division,
/// oracle = multiplication by the exact reciprocal): fragment k sits at
/// start + k*step and carries the stepped value divided by *its own* depth.
#[kani::proof]
#[kani::unwind(6)]
fn c05_fragments_f32() {
    let (x0, y0) = (fin(0.0, 64.0), fin(0.0, 64.0));
    let (z0, rz) = pow2_depth();
    let (a0, da) = (fin(-1e3, 1e3), fin(-10.0, 10.0));
    let mut sl: Scanline<f32> = Scanline {
        y: y0 as usize,
        xs: x0 as usize..x0 as usize + 2,
        vs: VIter { val: (pt3(x0, y0, z0), a0), step: (vec3::<f32, Screen>(1.0, 0.0, z0), da), n: Some(2) },
    };
    let mut it = sl.fragments();
    let f = it.next().unwrap();
    assert!(f.pos.x() == x0 && f.pos.y() == y0 && f.pos.z() == z0);
    assert!(f.var == a0 * rz);
    let g = it.next().unwrap();
    assert!(g.pos.x() == x0 + 1.0 && g.pos.y() == y0 && g.pos.z() == 2.0 * z0);
    assert!(g.var == (a0 + da) * (rz * 0.5));
    assert!(it.next().is_none());
    kani::cover!(z0 == 4.0 && da != 0.0, "deep, varying attribute");
}

/// F3, vector / tuple / colour attributes: every component is divided by the
/// fragment's own reciprocal depth; `()` passes through.
#[kani::proof]
#[kani::unwind(4)]
fn c05_fragments_compound() {
    let n: u32 = kani::any();
    kani::assume(n >= 1 && n <= 2);
    let (z0, dz) = (fin(1e-3, 1e3), fin(-1.0, 1.0));
    kani::assume(z0 + dz > 1e-3);
    let a: [f32; 3] = [fin(-8.0, 8.0), fin(-8.0, 8.0), fin(-8.0, 8.0)];
    let d: [f32; 3] = [fin(-1.0, 1.0), fin(-1.0, 1.0), fin(-1.0, 1.0)];
    let pos = pt3(0.5, 0.5, z0);
    let dpos = vec3::<f32, Screen>(1.0, 0.0, dz);
    // (f32, Vec3) tuple
    let mut s1: Scanline<(f32, Vec3)> = Scanline { y: 0, xs: 0..n as usize,
        vs: VIter { val: (pos, (a[0], vec3(a[0], a[1], a[2]))), step: (dpos, (d[0], vec3(d[0], d[1], d[2]))), n: Some(n) } };
    // Vec2
    let mut s2: Scanline<Vec2> = Scanline { y: 0, xs: 0..n as usize,
        vs: VIter { val: (pos, vec2(a[0], a[1])), step: (dpos, vec2(d[0], d[1])), n: Some(n) } };
    // colour
    let mut s3: Scanline<Color3f> = Scanline { y: 0, xs: 0..n as usize,
        vs: VIter { val: (pos, rgb(a[0], a[1], a[2])), step: (dpos, rgb(d[0], d[1], d[2])), n: Some(n) } };
    // unit
    let mut s4: Scanline<()> = Scanline { y: 0, xs: 0..n as usize, vs: VIter { val: (pos, ()), step: (dpos, ()), n: Some(n) } };
    let mut z = z0;
    let mut v = a;
    let (mut i1, mut i2, mut i3) = (s1.fragments(), s2.fragments(), s3.fragments());
    let mut k = 0;
    while k < n {
        let (f1, f2, f3) = (i1.next().unwrap(), i2.next().unwrap(), i3.next().unwrap());
        assert!(f1.pos.z() == z && f2.pos.z() == z && f3.pos.z() == z);
        assert!(f1.var.0 == v[0] / z);
        assert!(f1.var.1.x() == v[0] / z && f1.var.1.y() == v[1] / z && f1.var.1.z() == v[2] / z);
        assert!(f2.var.x() == v[0] / z && f2.var.y() == v[1] / z);
        assert!(f3.var.r() == v[0] / z && f3.var.g() == v[1] / z && f3.var.b() == v[2] / z);
        z = z + dz;
        v = [v[0] + d[0], v[1] + d[1], v[2] + d[2]];
        k += 1;
    }
    assert!(i1.next().is_none() && i2.next().is_none() && i3.next().is_none());
    assert!(s4.fragments().count() == n as usize);
    kani::cover!(n == 2 && z0 != 1.0 && dz != 0.0, "two fragments at different depths");
}

/// F3 quick forms: compound attribute types, two fragments whose reciprocal
/// depths are powers of two (z0 in {1/2,1,2,4}, second fragment 2*z0), so that
/// the division is exact and the oracle (multiply by the exact reciprocal)
/// shares no circuit with the code under test.
fn pow2_depth() -> (f32, f32) {
    let i: u8 = kani::any();
    kani::assume(i < 4);
    let z0 = [0.5f32, 1.0, 2.0, 4.0][i as usize];
    let rz = [2.0f32, 1.0, 0.5, 0.25][i as usize];
    (z0, rz)
}
#[kani::proof]
#[kani::unwind(4)]
fn c05_fragments_color() {
    let (z0, rz) = pow2_depth();
    let a: [f32; 3] = [fin(-8.0, 8.0), fin(-8.0, 8.0), fin(-8.0, 8.0)];
    let d: [f32; 3] = [fin(-1.0, 1.0), fin(-1.0, 1.0), fin(-1.0, 1.0)];
    let mut s3: Scanline<Color3f> = Scanline { y: 0, xs: 0..2,
        vs: VIter { val: (pt3(0.5, 0.5, z0), rgb(a[0], a[1], a[2])), step: (vec3::<f32, Screen>(1.0, 0.0, z0), rgb(d[0], d[1], d[2])), n: Some(2) } };
    let mut it = s3.fragments();
    let f = it.next().unwrap();
    assert!(f.pos.z() == z0);
    assert!(f.var.r() == a[0] * rz && f.var.g() == a[1] * rz && f.var.b() == a[2] * rz);
    let g = it.next().unwrap();
    assert!(g.pos.z() == 2.0 * z0 && g.pos.x() == 1.5);
    assert!(g.var.r() == (a[0] + d[0]) * (rz * 0.5) && g.var.g() == (a[1] + d[1]) * (rz * 0.5) && g.var.b() == (a[2] + d[2]) * (rz * 0.5));
    assert!(it.next().is_none());
    kani::cover!(z0 > 1.0 && a[0] > 1.0, "depth other than one");
}
#[kani::proof]
#[kani::unwind(4)]
fn c05_fragments_vec() {
    let (z0, rz) = pow2_depth();
    let a: [f32; 3] = [fin(-8.0, 8.0), fin(-8.0, 8.0), fin(-8.0, 8.0)];
    let pos = pt3(0.5, 0.5, z0);
    let dpos = vec3::<f32, Screen>(1.0, 0.0, 0.0);
    let mut s1: Scanline<(f32, Vec3)> = Scanline { y: 0, xs: 0..1,
        vs: VIter { val: (pos, (a[0], vec3(a[0], a[1], a[2]))), step: (dpos, (0.0, vec3(0.0, 0.0, 0.0))), n: Some(1) } };
    let mut s2: Scanline<Vec2> = Scanline { y: 0, xs: 0..1, vs: VIter { val: (pos, vec2(a[0], a[1])), step: (dpos, vec2(0.0, 0.0)), n: Some(1) } };
    let mut s4: Scanline<()> = Scanline { y: 0, xs: 0..1, vs: VIter { val: (pos, ()), step: (dpos, ()), n: Some(1) } };
    let f1 = s1.fragments().next().unwrap();
    let f2 = s2.fragments().next().unwrap();
    assert!(f1.var.0 == a[0] * rz && f1.var.1.x() == a[0] * rz && f1.var.1.y() == a[1] * rz && f1.var.1.z() == a[2] * rz);
    assert!(f2.var.x() == a[0] * rz && f2.var.y() == a[1] * rz);
    assert!(f1.pos.z() == z0 && f2.pos.z() == z0);
    assert!(s4.fragments().count() == 1);
    kani::cover!(z0 > 1.0 && a[0] > 1.0, "depth other than one");
}

/// F3 on a *long* scanline (20 fragments; reciprocal depth z0*(k+1), z0 a power of two,
/// arbitrary attribute start/step): fragment K (one harness per K) carries the stepped value
/// divided by its own depth - checked by multiplying back (relative 1e-5), so an implementation
/// that corrects perspective only every few pixels and interpolates linearly in between is told
/// apart.  Positions and depths of *all* 20 fragments are checked exactly.
fn fragments_long_at(kk: u32, ints: bool) {
    const N: u32 = 20;
    let (z0, _rz) = pow2_depth();
    // quick tier: integer-valued attribute start/step (few free mantissa bits: the divider is
    // decided in seconds); thorough tier: arbitrary floats
    let (a0, da) = if ints { (int(-1000, 1000) as f32, int(-10, 10) as f32) } else { (fin(-1e3, 1e3), fin(-10.0, 10.0)) };
    let mut sl: Scanline<f32> = Scanline {
        y: 3,
        xs: 2..2 + N as usize,
        vs: VIter { val: (pt3(2.5, 3.5, z0), a0), step: (vec3::<f32, Screen>(1.0, 0.0, z0), da), n: Some(N) },
    };
    let mut it = sl.fragments();
    let (mut v, mut z, mut x) = (a0, z0, 2.5f32);
    let mut k = 0;
    while k < N {
        let f = it.next().unwrap();
        assert!(f.pos.x() == x && f.pos.y() == 3.5 && f.pos.z() == z);
        if k == kk {
            let back = f.var * z;
            assert!((back - v).abs() <= 1e-5 * v.abs() + 1e-30);
        }
        v += da;
        z += z0;
        x += 1.0;
        k += 1;
    }
    assert!(it.next().is_none());
    kani::cover!(da > 1.0 && a0 < -1.0, "varying attribute");
}
#[kani::proof] #[kani::unwind(23)] fn c05_fragments_long_int_k8() { fragments_long_at(8, true); }
#[kani::proof] #[kani::unwind(23)] fn c05_fragments_long_k8() { fragments_long_at(8, false); }
#[kani::proof] #[kani::unwind(23)] fn c05_fragments_long_k19() { fragments_long_at(19, false); }

/// depth through scan(): reciprocal depth is an affine function of the screen
/// position (z = 1 + (p*x + q*y)/8 at the lattice corners); every fragment
/// carries the plane's value at its own pixel centre (pre-stepped in x and y).
#[kani::proof]
#[kani::unwind(6)]
fn c05_scan_depth() {
    use re::render::raster::scan;
    let (y0, y1) = (lat(0, 2 * G), lat(0, 2 * G));
    kani::assume(y0 < y1);
    let (lx0, lx1, rx0, rx1) = (lat(0, 2 * G), lat(0, 2 * G), lat(0, 2 * G), lat(0, 2 * G));
    kani::assume(lx0 <= rx0 && lx1 <= rx1 && (lx0 < rx0 || lx1 < rx1));
    let (p, q) = (int(0, 2), int(0, 2));
    let zat = |x: i32, y: i32| 1.0 + (p * x + q * y) as f32 * 0.0625;
    let v = |x: i32, y: i32| (pt3(x as f32 * 0.5, y as f32 * 0.5, zat(x, y)), ());
    let (l0, l1, r0, r1) = (v(lx0, y0), v(lx1, y1), v(rx0, y0), v(rx1, y1));
    let mut ok = true;
    let mut frags = 0u32;
    for mut sl in scan(y0 as f32 * 0.5..y1 as f32 * 0.5, &l0..&l1, &r0..&r1) {
        let cy = sl.y as f32 + 0.5;
        let mut cx = sl.xs.start as f32 + 0.5;
        for f in sl.fragments() {
            let want = 1.0 + (p as f32 * cx + q as f32 * cy) * 0.125;
            if !((f.pos.z() - want).abs() <= 1e-3) { ok = false; }
            cx += 1.0;
            frags += 1;
        }
    }
    assert!(ok);
    kani::cover!(frags >= 3 && p != 0 && q != 0 && lx0 != lx1, "several fragments, slanted edge, sloped depth");
}

/// F1 (quick form): one trapezoid straight through scan() + fragments(): edges on
/// the half-pixel lattice of a 2x2 grid, attribute = an integer-coefficient plane
/// sampled at the four corners: every fragment sits at its pixel centre and
/// carries plane(centre) (within 1e-3; exact values are small dyadics).
#[kani::proof]
#[kani::unwind(6)]
fn c05_scan_affine() {
    use re::render::raster::scan;
    let (y0, y1) = (lat(0, 2 * G), lat(0, 2 * G));
    kani::assume(y0 < y1);
    let (lx0, lx1, rx0, rx1) = (lat(0, 2 * G), lat(0, 2 * G), lat(0, 2 * G), lat(0, 2 * G));
    kani::assume(lx0 <= rx0 && lx1 <= rx1 && (lx0 < rx0 || lx1 < rx1));
    let (al, be, ga) = (int(-1, 2), int(-1, 2), int(-4, 4));
    let at = |x: i32, y: i32| (al * x + be * y) as f32 * 0.5 + ga as f32;
    let v = |x: i32, y: i32| (pt3(x as f32 * 0.5, y as f32 * 0.5, 1.0), at(x, y));
    let (l0, l1, r0, r1) = (v(lx0, y0), v(lx1, y1), v(rx0, y0), v(rx1, y1));
    let mut ok = true;
    let mut frags = 0u32;
    for mut sl in scan(y0 as f32 * 0.5..y1 as f32 * 0.5, &l0..&l1, &r0..&r1) {
        let cy = sl.y as f32 + 0.5;
        let mut cx = sl.xs.start as f32 + 0.5;
        for f in sl.fragments() {
            let want = (al as f32 * cx + be as f32 * cy) + ga as f32;
            if !((f.pos.x() - cx).abs() <= 1e-3 && f.pos.y() == cy) { ok = false; }
            if !((f.pos.z() - 1.0).abs() <= 1e-3) { ok = false; }
            if !((f.var - want).abs() <= 1e-3) { ok = false; }
            cx += 1.0;
            frags += 1;
        }
    }
    assert!(ok);
    kani::cover!(frags >= 3 && al != 0 && be != 0 && lx0 != lx1, "several fragments, slanted edge, sloped attribute");
}

/// F1: lattice geometry x affine attribute, w = 1.  Vertex attribute
/// alpha*x + beta*y + gamma with small symbolic integers: every fragment sits
/// at its pixel centre (y exactly, x within 1e-3) with z == 1 and carries the attribute plane's
/// value at that centre (exact: all values are small dyadics).
fn affine_case(y0: i32) {
    let k = [lat(0, 2 * G), y0, lat(0, 2 * G), lat(0, 2 * G), lat(0, 2 * G), lat(0, 2 * G)];
    kani::assume(edge(k[0], k[1], k[2], k[3], k[4], k[5]) != 0);
    let (al, be, ga) = (int(-1, 2), int(-1, 2), int(-4, 4));
    let at = |i: usize| (al * k[2 * i] + be * k[2 * i + 1]) as f32 * 0.5 + ga as f32;
    let vs = [0, 1, 2].map(|i| vertex(pt3(k[2 * i] as f32 * 0.5, k[2 * i + 1] as f32 * 0.5, 1.0), at(i)));
    let mut ok = true;
    let mut frags = 0u32;
    tri_fill(vs, |mut sl| {
        let cy = sl.y as f32 + 0.5;
        let mut cx = sl.xs.start as f32 + 0.5;
        for f in sl.fragments() {
            // doubled centre coordinates are odd integers
            let want = (al as f32 * cx + be as f32 * cy) + ga as f32;
            // x is stepped with dx * (1/dx), which is 1 only up to rounding
            if !((f.pos.x() - cx).abs() <= 1e-3 && f.pos.y() == cy) { ok = false; }
            if !((f.pos.z() - 1.0).abs() <= 1e-3) { ok = false; }
            if !((f.var - want).abs() <= 1e-3) { ok = false; }
            if !(f.var.is_finite() && f.pos.z().is_finite()) { ok = false; }
            cx += 1.0;
            frags += 1;
        }
    });
    assert!(ok);
    kani::cover!(frags >= 2 && al != 0 && be != 0, "several fragments, sloped attribute");
}
#[kani::proof] #[kani::unwind(6)] fn c05_affine_g2_y0() { affine_case(0); }
#[kani::proof] #[kani::unwind(6)] fn c05_affine_g2_y1() { affine_case(1); }
#[kani::proof] #[kani::unwind(6)] fn c05_affine_g2_y2() { affine_case(2); }
#[kani::proof] #[kani::unwind(6)] fn c05_affine_g2_y3() { affine_case(3); }
#[kani::proof] #[kani::unwind(6)] fn c05_affine_g2_y4() { affine_case(4); }
