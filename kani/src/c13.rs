//! C13 — PNM codec: total decoding and lossless binary round trip.
//! Symbolic header *text* does not get through (parse_num builds a String and
//! calls str::parse), so headers are concrete spellings and the binary payload
//! (contents and truncation point) is symbolic.
use crate::util::*;
use re::math::color::{rgb, Color3};
use re::util::buf::{AsSlice2, Buf2};
use re::util::pnm::*;


/// decode `hdr ++ payload[..n]`; P = samples per pixel in the payload (3: P6, 1: P5)
fn decode_case<const PAY: usize>(hdr: &[u8], w: u32, h: u32, per_px: usize) {
    let pay: [u8; PAY] = kani::any();
    let n: usize = kani::any();
    kani::assume(n <= PAY);
    let need = (w * h) as usize * per_px;
    let r = parse_pnm(hdr.iter().copied().chain(pay[..n].iter().copied()));
    match r {
        Ok(img) => {
            assert!(n >= need);
            assert!(img.width() == w && img.height() == h);
            assert!(img.data().len() == (w * h) as usize);
            let i: usize = kani::any();
            kani::assume(i < (w * h) as usize);
            let px = img.data()[i];
            if per_px == 3 {
                assert!(px.0 == [pay[3 * i], pay[3 * i + 1], pay[3 * i + 2]]);
            } else {
                assert!(px.0 == [pay[i], pay[i], pay[i]]);
            }
        }
        Err(_) => {
            // a complete payload must decode; which error a short one gives is not part of the property
            assert!(n < need);
        }
    }
    kani::cover!(n >= need && need > 0 && (pay[0] == b'#' || pay[0] == b' ' || pay[0] == b'7'), "payload starts with '#', blank or a digit");
    kani::cover!(n < need, "truncated");
}

/// the same with a *concrete* truncation point (one harness per length): the decoder's buffers
/// then have concrete lengths, which keeps implementations that collect the payload into a Vec
/// first within reach of the solver
fn decode_truncated_at<const PAY: usize>(hdr: &[u8], w: u32, h: u32, per_px: usize, n: usize) {
    let pay: [u8; PAY] = kani::any();
    let need = (w * h) as usize * per_px;
    match parse_pnm(hdr.iter().copied().chain(pay[..n].iter().copied())) {
        Ok(img) => {
            assert!(n >= need);
            assert!(img.width() == w && img.height() == h && img.data().len() == (w * h) as usize);
            let i: usize = kani::any();
            kani::assume(i < (w * h) as usize);
            let px = img.data()[i];
            if per_px == 3 { assert!(px.0 == [pay[3 * i], pay[3 * i + 1], pay[3 * i + 2]]); } else { assert!(px.0 == [pay[i], pay[i], pay[i]]); }
        }
        Err(_) => { assert!(n < need); }
    }
    kani::cover!(pay[0] == b'#' || pay[0] == b' ' || pay[0] == b'\n', "payload starts with '#' or whitespace");
}
macro_rules! trunc_harnesses {
    ($($name:ident: $n:expr;)*) => { $( #[kani::proof] #[kani::unwind(40)] fn $name() { decode_truncated_at::<7>(b"P6 2 1 255\n", 2, 1, 3, $n); } )* };
}
trunc_harnesses! {
    c13_p6_2x1_cut0: 0; c13_p6_2x1_cut1: 1; c13_p6_2x1_cut2: 2; c13_p6_2x1_cut3: 3;
    c13_p6_2x1_cut4: 4; c13_p6_2x1_cut5: 5; c13_p6_2x1_cut6: 6; c13_p6_2x1_cut7: 7;
}

macro_rules! decode_harness {
    ($name:ident, $hdr:expr, $w:expr, $h:expr, $pp:expr, $pay:expr) => {
        #[kani::proof]
        #[kani::unwind(40)]
        fn $name() {
            decode_case::<$pay>($hdr, $w, $h, $pp);
        }
    };
}

decode_harness!(c13_p6_2x1, b"P6 2 1 255\n", 2, 1, 3, 7);
decode_harness!(c13_p6_1x2_tabs_cr, b"P6\t1\r\n2\n255 ", 1, 2, 3, 7);
decode_harness!(c13_p6_comments, b"P6\n# a comment 9 9\n2 # w\n1\n#max\n255\n", 2, 1, 3, 7);
decode_harness!(c13_p5_3x3, b"P5 3 3 255\n", 3, 3, 1, 9);
decode_harness!(c13_p5_2x2_comment, b"P5 #c\n2 2 # 7 7\n255\n", 2, 2, 1, 5);

/// zero-sized images: any payload, no panic, Ok with the header's dims
fn decode_empty(hdr: &[u8], w: u32, h: u32) {
    let pay: [u8; 4] = kani::any();
    let n: usize = kani::any();
    kani::assume(n <= 4);
    match parse_pnm(hdr.iter().copied().chain(pay[..n].iter().copied())) {
        Ok(img) => { assert!(img.width() == w && img.height() == h && img.data().len() == 0); }
        Err(_) => { assert!(false); }
    }
    kani::cover!(n == 4, "trailing bytes");
}
#[kani::proof] #[kani::unwind(24)] fn c13_p6_0x3() { decode_empty(b"P6 0 3 255\n", 0, 3); }
#[kani::proof] #[kani::unwind(24)] fn c13_p6_2x0() { decode_empty(b"P6 2 0 255\n", 2, 0); }
#[kani::proof] #[kani::unwind(24)] fn c13_p5_0x0() { decode_empty(b"P5 0 0 255\n", 0, 0); }

/// headers whose pixel count overflows or is astronomically large: Err, never a panic
fn decode_huge(hdr: &[u8]) {
    let pay: [u8; 4] = kani::any();
    let n: usize = kani::any();
    kani::assume(n <= 4);
    let r = parse_pnm(hdr.iter().copied().chain(pay[..n].iter().copied()));
    assert!(r.is_err());
    kani::cover!(n == 4, "some payload");
}
#[kani::proof] #[kani::unwind(40)] fn c13_p6_overflowing_dims() { decode_huge(b"P6 65536 65536 255\n"); }
#[kani::proof] #[kani::unwind(40)] fn c13_p6_huge_width() { decode_huge(b"P6 4294967295 2 255\n"); }
#[kani::proof] #[kani::unwind(40)] fn c13_p5_large() { decode_huge(b"P5 40000 40000 255\n"); }
#[kani::proof] #[kani::unwind(40)] fn c13_p6_dim_too_big_for_u32() { decode_huge(b"P6 4294967296 1 255\n"); }

/// unsupported or truncated magic numbers (concrete table): error, never a panic
/// (straight-line calls: a loop over a table of slices makes the input pointer symbolic)
#[kani::proof]
#[kani::unwind(12)]
fn c13_bad_magic() {
    assert!(parse_pnm(b"P7 1 1 255\n".iter().copied()).is_err());
    assert!(parse_pnm(b"Q6 1 1 255\n".iter().copied()).is_err());
    assert!(parse_pnm(b"\0\0".iter().copied()).is_err());
    assert!(parse_pnm(b"P".iter().copied()).is_err());
    assert!(parse_pnm(b"".iter().copied()).is_err());
    kani::cover!(true, "reached the end");
}

/// the plain-text bitmap magic P1 (unsupported today; a decoder may add it): well-formed
/// and out-of-range-sample spellings must not panic; an Ok has the header's dimensions
/// and w*h pixels
fn p1_case(file: &[u8], w: u32, h: u32) {
    if let Ok(img) = parse_pnm(file.iter().copied()) {
        assert!(img.width() == w && img.height() == h && img.data().len() == (w * h) as usize);
    }
}
#[kani::proof]
#[kani::unwind(12)]
fn c13_p1_total() {
    p1_case(b"P1 1 1\n2", 1, 1);
    p1_case(b"P1 2 1\n1 255", 2, 1);
    kani::cover!(true, "reached the end");
}

/// a supported magic followed by garbage instead of numbers: error, never a
/// panic; two concrete text-format files decode (thorough tier: concrete
/// execution of String / str::parse is slow in the symbolic engine)
#[kani::proof]
#[kani::unwind(24)]
fn c13_garbage_after_magic() {
    // (straight-line calls: a loop over a table of slices makes the input pointer symbolic)
    assert!(parse_pnm(b"P6 x 1 255\n".iter().copied()).is_err());
    assert!(parse_pnm(b"P5 2 -1 255\n".iter().copied()).is_err());
    assert!(parse_pnm(b"P6 2".iter().copied()).is_err());
    assert!(parse_pnm(b"P6 2 2 70000\n".iter().copied()).is_err());
    assert!(parse_pnm(b"P3 1 1 255\n300 0 0".iter().copied()).is_err());
    assert!(parse_pnm(b"P2 1 1 255\n".iter().copied()).is_err());
    let ok = parse_pnm(b"P3 1 1 255\n7 8 9".iter().copied()).unwrap();
    assert!(ok.data()[0].0 == [7, 8, 9]);
    let ok = parse_pnm(b"P2 2 1 255\n7 # c\n8".iter().copied()).unwrap();
    assert!(ok.data()[0].0 == [7, 7, 7] && ok.data()[1].0 == [8, 8, 8]);
    kani::cover!(true, "reached the end");
}

/// N2 round trip (std only): write_ppm into a Vec, read it back: same dims and pixels.
#[cfg(feature = "cfg-std")]
#[kani::proof]
#[kani::unwind(40)]
fn c13_roundtrip_2x2_view() {
    let px: [u8; 27] = kani::any();
    let big = Buf2::new_with((3, 3), |x, y| { let i = 3 * (3 * y + x) as usize; rgb(px[i], px[i + 1], px[i + 2]) });
    let (ox, oy): (u32, u32) = (kani::any(), kani::any());
    kani::assume(ox <= 1 && oy <= 1);
    let view = big.slice((ox..ox + 2, oy..oy + 2));
    let mut out: Vec<u8> = Vec::new();
    write_ppm(&mut out, view).unwrap();
    let back = read_pnm(&out[..]).unwrap();
    assert!(back.width() == 2 && back.height() == 2);
    let (x, y): (u32, u32) = (kani::any(), kani::any());
    kani::assume(x < 2 && y < 2);
    let i = 3 * (3 * (oy + y) + ox + x) as usize;
    assert!(back[[x, y]].0 == [px[i], px[i + 1], px[i + 2]]);
    kani::cover!(px[12] != px[15], "distinct pixels");
}

/// N2 (writer half, std only): write_ppm of a strided 2x2 sub-view emits the
/// header "P6 2 2 255\n" followed by exactly the view's pixels in row-major
/// order; together with the decode harnesses (payload returned verbatim after
/// exactly this header spelling) this gives the round trip.
#[cfg(feature = "cfg-std")]
#[kani::proof]
#[kani::unwind(24)]
fn c13_write_ppm_view() {
    let px: [u8; 27] = kani::any();
    let big = Buf2::new_with((3, 3), |x, y| { let i = 3 * (3 * y + x) as usize; rgb(px[i], px[i + 1], px[i + 2]) });
    // concrete offset (strided view, stride 3 > width 2): a symbolic one would make the
    // *formatted dimensions* symbolic and drag core::fmt's integer printing into the solver
    let (ox, oy): (u32, u32) = (1, 1);
    let mut out: Vec<u8> = Vec::with_capacity(32);
    write_ppm(&mut out, big.slice((ox..ox + 2, oy..oy + 2))).unwrap();
    let hdr = b"P6 2 2 255\n";
    assert!(out.len() == hdr.len() + 12);
    let k: usize = kani::any();
    kani::assume(k < hdr.len());
    assert!(out[k] == hdr[k]);
    let (x, y, ch): (u32, u32, usize) = (kani::any(), kani::any(), kani::any());
    kani::assume(x < 2 && y < 2 && ch < 3);
    let i = 3 * (3 * (oy + y) + ox + x) as usize + ch;
    assert!(out[hdr.len() + 3 * (2 * y + x) as usize + ch] == px[i]);
    kani::cover!(px[12] != px[15], "distinct pixels");
}
