// harness=c02::c02_scan_margin cfg=bare
/// Test generated for harness `c02::c02_scan_margin` 
///
/// Check for `assertion`: "assertion failed: ok"

#[test]
fn kani_concrete_playback_c02_scan_margin_13196649303585862266() {
    let concrete_vals: Vec<Vec<u8>> = vec![
        // 0
        vec![0],
        // 60
        vec![60],
        // 0
        vec![0],
        // 64
        vec![64],
        // 0.499999
        vec![223, 255, 255, 62],
        // 0.5
        vec![255, 255, 255, 62],
        // 1.344167e-24
        vec![241, 255, 207, 23],
        // 1.344169e-24
        vec![1, 0, 208, 23],
        // 44.001179
        vec![53, 1, 48, 66],
        // 60.00098
        vec![1, 1, 112, 66],
    ];
    kani::concrete_playback_run(concrete_vals, c02_scan_margin);
}
