// harness=c02::c02_scan_margin cfg=std
/// Test generated for harness `c02::c02_scan_margin` 
///
/// Check for `assertion`: "assertion failed: ok"

#[test]
fn kani_concrete_playback_c02_scan_margin_17876756814102399884() {
    let concrete_vals: Vec<Vec<u8>> = vec![
        // 0
        vec![0],
        // 64
        vec![64],
        // 0
        vec![0],
        // 63
        vec![63],
        // 0.5
        vec![254, 255, 255, 62],
        // 0.5
        vec![255, 255, 255, 62],
        // 0.500975
        vec![224, 63, 0, 63],
        // 64.000977
        vec![128, 0, 128, 66],
        // 0.751001
        vec![160, 65, 64, 63],
        // 64.000999
        vec![131, 0, 128, 66],
    ];
    kani::concrete_playback_run(concrete_vals, c02_scan_margin);
}
