// harness=c20::c20_floor cfg=std
/// Test generated for harness `c20::c20_floor` 
///
/// Check for `assertion`: "assertion failed: x - r < 1.0"

#[test]
fn kani_concrete_playback_c20_floor_14512393404836808449() {
    let concrete_vals: Vec<Vec<u8>> = vec![
        // -2.350989e-38
        vec![0, 0, 0, 129],
    ];
    kani::concrete_playback_run(concrete_vals, c20_floor);
}
