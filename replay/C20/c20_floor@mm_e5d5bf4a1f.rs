// harness=c20::c20_floor cfg=mm
/// Test generated for harness `c20::c20_floor` 
///
/// Check for `assertion`: "assertion failed: x - r < 1.0"

#[test]
fn kani_concrete_playback_c20_floor_620747657558449639() {
    let concrete_vals: Vec<Vec<u8>> = vec![
        // -1.396984e-9
        vec![0, 0, 192, 176],
    ];
    kani::concrete_playback_run(concrete_vals, c20_floor);
}
