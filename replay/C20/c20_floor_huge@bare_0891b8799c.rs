// harness=c20::c20_floor_huge cfg=bare
/// Test generated for harness `c20::c20_floor_huge` 
///
/// Check for `assertion`: "attempt to subtract with overflow"

#[test]
fn kani_concrete_playback_c20_floor_huge_4107768059964652644() {
    let concrete_vals: Vec<Vec<u8>> = vec![
        // -1.000000e+30
        vec![202, 242, 73, 241],
    ];
    kani::concrete_playback_run(concrete_vals, c20_floor_huge);
}
