// harness=c20::c20_rem_euclid_zero cfg=libm
/// Test generated for harness `c20::c20_rem_euclid_zero` 
///
/// Check for `assertion`: "assertion failed: rf::rem_euclid(-0.0, m) == 0.0"

#[test]
fn kani_concrete_playback_c20_rem_euclid_zero_5238753449589835154() {
    let concrete_vals: Vec<Vec<u8>> = vec![
        // 256
        vec![0, 1, 0, 0],
    ];
    kani::concrete_playback_run(concrete_vals, c20_rem_euclid_zero);
}
