// harness=c20::c20_floor cfg=libm
/// Test generated for harness `c20::c20_floor` 
///
/// Check for `assertion`: "assertion failed: x - r < 1.0"

#[test]
fn kani_concrete_playback_c20_floor_9367446844192620327() {
    let concrete_vals: Vec<Vec<u8>> = vec![
        // -1.059841e-22
        vec![128, 32, 0, 155],
    ];
    kani::concrete_playback_run(concrete_vals, c20_floor);
}
