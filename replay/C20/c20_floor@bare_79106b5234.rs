// harness=c20::c20_floor cfg=bare
/// Test generated for harness `c20::c20_floor` 
///
/// Check for `assertion`: "assertion failed: r == x"

#[test]
fn kani_concrete_playback_c20_floor_13798693787346393152() {
    let concrete_vals: Vec<Vec<u8>> = vec![
        // -3.355443e+7
        vec![255, 255, 255, 203],
    ];
    kani::concrete_playback_run(concrete_vals, c20_floor);
}
