// harness=c11::c11_write_copy_from cfg=bare
/// Test generated for harness `c11::c11_write_copy_from` 
///
/// Check for `assertion`: "attempt to add with overflow"

#[test]
fn kani_concrete_playback_c11_write_copy_from_13184785393101624197() {
    let concrete_vals: Vec<Vec<u8>> = vec![
        // 255
        vec![255],
        // 255
        vec![255],
        // 255
        vec![255],
        // 255
        vec![255],
        // 255
        vec![255],
        // 255
        vec![255],
        // 255
        vec![255],
        // 255
        vec![255],
        // 255
        vec![255],
        // 255
        vec![255],
        // 255
        vec![255],
        // 255
        vec![255],
        // 255
        vec![255],
        // 255
        vec![255],
        // 255
        vec![255],
        // 255
        vec![255],
        // 255
        vec![255],
        // 255
        vec![255],
        // 3
        vec![3, 0, 0, 0],
        // 2
        vec![2, 0, 0, 0],
        // 0
        vec![0, 0, 0, 0],
        // 2
        vec![2, 0, 0, 0],
        // 1
        vec![1, 0, 0, 0],
        // 2
        vec![2, 0, 0, 0],
        // 0
        vec![0, 0, 0, 0],
        // 2
        vec![2, 0, 0, 0],
        // 0
        vec![0, 0, 0, 0],
        // 0
        vec![0, 0, 0, 0],
        // 4294967295
        vec![255, 255, 255, 255],
        // 0
        vec![0, 0, 0, 0],
    ];
    kani::concrete_playback_run(concrete_vals, c11_write_copy_from);
}
