// harness=c11::c11_write_fill cfg=bare
/// Test generated for harness `c11::c11_write_fill` 
///
/// Check for `assertion`: "This is a placeholder message; Kani doesn't support message formatted at runtime"

#[test]
fn kani_concrete_playback_c11_write_fill_18153558331139148918() {
    let concrete_vals: Vec<Vec<u8>> = vec![
        // 255
        vec![255],
        // 255
        vec![255],
        // 255
        vec![255],
        // 255
        vec![255],
        // 255
        vec![255],
        // 255
        vec![255],
        // 255
        vec![255],
        // 255
        vec![255],
        // 255
        vec![255],
        // 2
        vec![2, 0, 0, 0],
        // 3
        vec![3, 0, 0, 0],
        // 0
        vec![0, 0, 0, 0],
        // 2
        vec![2, 0, 0, 0],
        // 3
        vec![3, 0, 0, 0],
        // 3
        vec![3, 0, 0, 0],
        // 0
        vec![0, 0, 0, 0],
        // 1
        vec![1, 0, 0, 0],
        // 0
        vec![0, 0, 0, 0],
        // 0
        vec![0, 0, 0, 0],
        // 255
        vec![255],
        // 4294967295
        vec![255, 255, 255, 255],
        // 4294967295
        vec![255, 255, 255, 255],
    ];
    kani::concrete_playback_run(concrete_vals, c11_write_fill);
}
