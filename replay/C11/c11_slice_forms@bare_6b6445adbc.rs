// harness=c11::c11_slice_forms cfg=bare
/// Test generated for harness `c11::c11_slice_forms` 
///
/// Check for `assertion`: "This is a placeholder message; Kani doesn't support message formatted at runtime"

#[test]
fn kani_concrete_playback_c11_slice_forms_16814757511183708970() {
    let concrete_vals: Vec<Vec<u8>> = vec![
        // 188
        vec![188],
        // 252
        vec![252],
        // 255
        vec![255],
        // 1
        vec![1],
        // 252
        vec![252],
        // 255
        vec![255],
        // 255
        vec![255],
        // 255
        vec![255],
        // 255
        vec![255],
        // 3
        vec![3, 0, 0, 0],
        // 3
        vec![3, 0, 0, 0],
        // 1
        vec![1],
        // 1
        vec![1],
        // 0
        vec![0, 0, 0, 0],
        // 0
        vec![0, 0, 0, 0],
        // 3
        vec![3, 0, 0, 0],
        // 2
        vec![2, 0, 0, 0],
    ];
    kani::concrete_playback_run(concrete_vals, c11_slice_forms);
}
