// harness=c11::c11_raw_rows cfg=bare
/// Test generated for harness `c11::c11_raw_rows` 
///
/// Check for `assertion`: "assertion failed: n < h"

#[test]
fn kani_concrete_playback_c11_raw_rows_17110305197256438672() {
    let concrete_vals: Vec<Vec<u8>> = vec![
        // 255
        vec![255],
        // 255
        vec![255],
        // 255
        vec![255],
        // 255
        vec![255],
        // 255
        vec![255],
        // 255
        vec![255],
        // 255
        vec![255],
        // 255
        vec![255],
        // 255
        vec![255],
        // 255
        vec![255],
        // 255
        vec![255],
        // 255
        vec![255],
        // 12ul
        vec![12, 0, 0, 0, 0, 0, 0, 0],
        // 2
        vec![2, 0, 0, 0],
        // 0
        vec![0, 0, 0, 0],
        // 2
        vec![2, 0, 0, 0],
    ];
    kani::concrete_playback_run(concrete_vals, c11_raw_rows);
}
