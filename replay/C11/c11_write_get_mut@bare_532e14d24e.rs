// harness=c11::c11_write_get_mut cfg=bare
/// Test generated for harness `c11::c11_write_get_mut` 
///
/// Check for `assertion`: "This is a placeholder message; Kani doesn't support message formatted at runtime"

#[test]
fn kani_concrete_playback_c11_write_get_mut_17779751483199375779() {
    let concrete_vals: Vec<Vec<u8>> = vec![
        // 222
        vec![222],
        // 222
        vec![222],
        // 222
        vec![222],
        // 222
        vec![222],
        // 222
        vec![222],
        // 222
        vec![222],
        // 222
        vec![222],
        // 222
        vec![222],
        // 222
        vec![222],
        // 2
        vec![2, 0, 0, 0],
        // 3
        vec![3, 0, 0, 0],
        // 2
        vec![2, 0, 0, 0],
        // 2
        vec![2, 0, 0, 0],
        // 3
        vec![3, 0, 0, 0],
        // 3
        vec![3, 0, 0, 0],
        // 0
        vec![0, 0, 0, 0],
        // 0
        vec![0, 0, 0, 0],
        // 0
        vec![0, 0, 0, 0],
        // 0
        vec![0, 0, 0, 0],
        // 223
        vec![223],
        // 0
        vec![0, 0, 0, 0],
        // 262146
        vec![2, 0, 4, 0],
    ];
    kani::concrete_playback_run(concrete_vals, c11_write_get_mut);
}
