#!/bin/bash
# seedtest.sh <seed_dir> <k> <prop> [demo cargo args...]  -- verify a seeded change natively (suite passes, demo fails with / passes without)
sd=$1; k=$2; prop=$3; shift 3
args=${@:---features std}
wt=/tmp/sw_${prop}_$k
git -C /repo worktree remove --force $wt 2>/dev/null
git -C /repo worktree add -q --detach $wt HEAD || exit 2
cd $wt
export CARGO_NET_OFFLINE=true
mkdir -p core/tests && cp $sd/demo$k.rs core/tests/demo.rs
rm -f core/tests/.keep; base=$(cd core && cargo test --offline -j 4 -p retrofire-core $args --test demo 2>&1 | grep -E "^test result" | tail -1)
git apply $sd/patch$k.diff || { echo "PATCH DOES NOT APPLY"; exit 2; }
mv core/tests /tmp/sw_tests_$$
suite=$(cargo test --workspace --no-fail-fast --offline -j 4 2>&1 | grep -E "^test result" | awk '{p+=$4; f+=$6} END {print "passed=" p " failed=" f}')
mv /tmp/sw_tests_$$ core/tests
withc=$(cd core && cargo test --offline -j 4 -p retrofire-core $args --test demo 2>&1 | grep -E "^test result" | tail -1)
rm -rf core/tests
echo "$prop/$k: demo without change: $base"
echo "$prop/$k: suite with change: $suite"
echo "$prop/$k: demo with change: $withc"
echo "worktree with change left at $wt"
