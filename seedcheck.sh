#!/bin/bash
# seedcheck.sh <seed-id> [check args...] : run the property's registered check against a scratch worktree with the seeded change applied
id=$1; shift
prop=${id%%-*}
d=/verif/seeded/$id
wt=/tmp/sc_$id
git -C /repo worktree remove --force $wt 2>/dev/null
git -C /repo worktree add -q --detach $wt HEAD || exit 2
git -C $wt apply $d/patch.diff || { echo "patch does not apply"; exit 2; }
cd /verif
t0=$(date +%s)
VERIF_REPO=$wt ./check $prop --no-evidence "$@" > /tmp/sc_$id.out 2>&1
rc=$?
t1=$(date +%s)
git -C /repo worktree remove --force $wt
echo "$id rc=$rc wall=$((t1-t0))s $(grep -c '^VIOLATION' /tmp/sc_$id.out) violation line(s)"
grep -E "^VIOLATION|^  harness=|^MACHINERY|^INCONCLUSIVE" /tmp/sc_$id.out | head -8
